(* encoding/json's string writer (model/JsonString.v): what it preserves and what it does not.

   decode_rune_spec                      the decoder, inverted: which byte shapes give which rune and width
   unquote_quote                         the reader gives back every valid UTF-8 string from its JSON text
   json_quote_injective_on_valid_utf8    so two different valid UTF-8 keys have different JSON texts
   json_quote_not_injective_refuted      false without "valid UTF-8": /a\xff and /a\xfe have ONE JSON text
                                         (every byte that starts no valid sequence is written \ufffd)
   valid_utf8_all_bytes                  the byte-range hypothesis of lib/Bytes.v (all_bytes) follows from
                                         valid_utf8, which is why the theorems do not assume it
   valid_utf8_app, valid_utf8_ascii      valid strings concatenate; ASCII is valid
   for EVERY input, valid or not (induction over the relation `quoted` between input and output):
   json_quote_printable                  no raw control byte and nothing that is no byte in the output
   json_quote_delimited                  a key cannot break out of its string: in any text continuing after
                                         json_quote s the string lexer stops exactly at the closing quote
   json_quote_valid_utf8                 the output is valid UTF-8
   json_quote_length                     |s| + 2 <= |json_quote s| <= 6 |s| + 2
   NoDup_map_json_quote                  a duplicate-free list of valid UTF-8 keys stays duplicate free

   No axioms. *)
From Coq Require Import List NArith PeanoNat Bool Lia ZifyN ZifyNat ZifyBool.
From JV.lib Require Import Bytes.
From JV.model Require Import JsonString.
Import ListNotations.
Open Scope N_scope.

(* ---- the masks of the decoder as subtractions ---- *)
Lemma mod64_cont c : 128 <= c -> c <= 191 -> c mod 64 = c - 128.
Proof. intros. symmetry. apply (N.mod_unique c 64 2 (c - 128)); lia. Qed.
Lemma mod32_lead c : 192 <= c -> c <= 223 -> c mod 32 = c - 192.
Proof. intros. symmetry. apply (N.mod_unique c 32 6 (c - 192)); lia. Qed.
Lemma mod16_lead c : 224 <= c -> c <= 239 -> c mod 16 = c - 224.
Proof. intros. symmetry. apply (N.mod_unique c 16 14 (c - 224)); lia. Qed.
Lemma mod8_lead c : 240 <= c -> c <= 247 -> c mod 8 = c - 240.
Proof. intros. symmetry. apply (N.mod_unique c 8 30 (c - 240)); lia. Qed.

(* ---- the decoder, inverted: decoded s r w lists the shapes of s for which decode_rune s = (r, w);
   the rune is written with subtractions (the masked value of a byte whose range is known) ---- *)
Inductive decoded : bytes -> N -> nat -> Prop :=
| DEmpty : decoded [] rune_error 0
| DAscii c r : c < 128 -> decoded (c :: r) c 1
| DBad c r : 128 <= c -> decoded (c :: r) rune_error 1
| D2 c0 c1 r : 194 <= c0 <= 223 -> 128 <= c1 <= 191 ->
    decoded (c0 :: c1 :: r) ((c0 - 192) * 64 + (c1 - 128)) 2
| D3 c0 c1 c2 r : 224 <= c0 <= 239 -> 128 <= c1 <= 191 -> 128 <= c2 <= 191 ->
    (c0 = 224 -> 160 <= c1) -> (c0 = 237 -> c1 <= 159) ->
    decoded (c0 :: c1 :: c2 :: r) ((c0 - 224) * 4096 + (c1 - 128) * 64 + (c2 - 128)) 3
| D4 c0 c1 c2 c3 r : 240 <= c0 <= 244 -> 128 <= c1 <= 191 -> 128 <= c2 <= 191 -> 128 <= c3 <= 191 ->
    (c0 = 240 -> 144 <= c1) -> (c0 = 244 -> c1 <= 143) ->
    decoded (c0 :: c1 :: c2 :: c3 :: r)
            ((c0 - 240) * 262144 + (c1 - 128) * 4096 + (c2 - 128) * 64 + (c3 - 128)) 4.

Ltac brk := match goal with |- context[if ?b then _ else _] => destruct b eqn:? end.

Lemma decode_rune_spec s : decoded s (fst (decode_rune s)) (snd (decode_rune s)).
Proof.
  destruct s as [|c0 r0]; [constructor|].
  unfold decode_rune. destruct (c0 <? 128) eqn:Ea; cbn [fst snd]; [apply DAscii; lia|].
  destruct (lead_class c0) eqn:El; cbn [fst snd]; [apply DBad; lia| | |].
  - (* two bytes *)
    assert (194 <= c0 <= 223) as Hc0.
    { revert El. unfold lead_class, in_range. repeat brk; try discriminate; lia. }
    destruct r0 as [|c1 r1]; cbn [fst snd]; [apply DBad; lia|].
    destruct (is_cont c1) eqn:E1; cbn [fst snd]; [|apply DBad; lia].
    unfold is_cont, in_range in E1.
    rewrite mod32_lead, mod64_cont by lia. apply D2; lia.
  - assert (224 <= c0 <= 239 /\ 128 <= lo /\ hi <= 191 /\ (c0 = 224 -> 160 <= lo) /\ (c0 = 237 -> hi <= 159)) as Hc0.
    { revert El. unfold lead_class, in_range. repeat brk; try discriminate; intros [= <- <-]; lia. }
    destruct r0 as [|c1 [|c2 r2]]; cbn [fst snd]; try (apply DBad; lia).
    destruct (in_range lo hi c1 && is_cont c2) eqn:E1; cbn [fst snd]; [|apply DBad; lia].
    unfold is_cont, in_range in E1.
    rewrite mod16_lead, !mod64_cont by lia. apply D3; lia.
  - assert (240 <= c0 <= 244 /\ 128 <= lo /\ hi <= 191 /\ (c0 = 240 -> 144 <= lo) /\ (c0 = 244 -> hi <= 143)) as Hc0.
    { revert El. unfold lead_class, in_range. repeat brk; try discriminate; intros [= <- <-]; lia. }
    destruct r0 as [|c1 [|c2 [|c3 r3]]]; cbn [fst snd]; try (apply DBad; lia).
    destruct (in_range lo hi c1 && is_cont c2 && is_cont c3) eqn:E1; cbn [fst snd]; [|apply DBad; lia].
    unfold is_cont, in_range in E1.
    rewrite mod8_lead, !mod64_cont by lia. apply D4; lia.
Qed.

(* ---- the reader on the pieces the writer emits ---- *)
Lemma option_map_app_nil (o : option bytes) : option_map (app []) o = o.
Proof. destruct o; reflexivity. Qed.

Lemma option_map_cons_app c (p : bytes) (o : option bytes) :
  option_map (cons c) (option_map (app p) o) = option_map (app (c :: p)) o.
Proof. destruct o; reflexivity. Qed.

Lemma option_map_app_app (p q : bytes) (o : option bytes) :
  option_map (app p) (option_map (app q) o) = option_map (app (p ++ q)) o.
Proof. destruct o; cbn [option_map]; [rewrite app_assoc|]; reflexivity. Qed.

Lemma unquote_raw c r : 32 <= c -> c <> 34 -> c <> 92 ->
  unquote_body (c :: r) = option_map (cons c) (unquote_body r).
Proof.
  intros H1 H2 H3. cbn [unquote_body].
  destruct (c =? 34) eqn:E1; [lia|]. destruct (c =? 92) eqn:E2; [lia|].
  destruct (c <? 32) eqn:E3; [lia|]. reflexivity.
Qed.

Lemma unquote_u a b x y r :
  unquote_body (92 :: 117 :: a :: b :: x :: y :: r) =
  match hex4 a b x y with
  | Some cp => if is_surrogate cp then None else option_map (app (utf8_encode cp)) (unquote_body r)
  | None => None
  end.
Proof. reflexivity. Qed.

Lemma hex_val_lower n : n < 16 -> hex_val (hex_lower n) = Some n.
Proof.
  intros H. unfold hex_lower. destruct (n <? 10) eqn:E; unfold hex_val, in_range;
    repeat brk; try lia; f_equal; lia.
Qed.

Lemma unquote_esc_ascii c r : c < 128 ->
  unquote_body (esc_ascii c ++ r) = option_map (cons c) (unquote_body r).
Proof.
  intros Hc. unfold esc_ascii.
  destruct (html_safe c) eqn:Hs.
  { cbn [app]. unfold html_safe in Hs. apply unquote_raw; lia. }
  destruct ((c =? 92) || (c =? 34)) eqn:E1.
  { assert (c = 92 \/ c = 34) as [-> | ->] by lia; reflexivity. }
  destruct (c =? 8) eqn:E2. { apply N.eqb_eq in E2. subst c. reflexivity. }
  destruct (c =? 12) eqn:E3. { apply N.eqb_eq in E3. subst c. reflexivity. }
  destruct (c =? 10) eqn:E4. { apply N.eqb_eq in E4. subst c. reflexivity. }
  destruct (c =? 13) eqn:E5. { apply N.eqb_eq in E5. subst c. reflexivity. }
  destruct (c =? 9) eqn:E6. { apply N.eqb_eq in E6. subst c. reflexivity. }
  cbn [app]. rewrite unquote_u.
  pose proof (N.div_mod' c 16) as Hd. pose proof (N.mod_lt c 16 ltac:(lia)) as Hm.
  unfold hex4. change (hex_val 48) with (Some 0).
  rewrite !hex_val_lower by lia.
  replace (((0 * 16 + 0) * 16 + c / 16) * 16 + c mod 16) with c by lia.
  unfold is_surrogate, in_range. destruct ((55296 <=? c) && (c <=? 57343)) eqn:E7; [lia|].
  unfold utf8_encode. destruct (c <? 128) eqn:E8; [|lia]. reflexivity.
Qed.

Lemma unquote_2028 r :
  unquote_body ([92; 117; 50; 48; 50; 56] ++ r) = option_map (app [226; 128; 168]) (unquote_body r).
Proof. reflexivity. Qed.

Lemma unquote_2029 r :
  unquote_body ([92; 117; 50; 48; 50; 57] ++ r) = option_map (app [226; 128; 169]) (unquote_body r).
Proof. reflexivity. Qed.

Lemma decode_error_bad : is_decode_error (rune_error, 1%nat) = true.
Proof. reflexivity. Qed.

(* ---- the round trip ---- *)
Lemma unquote_quote_body : forall n s, valid_go n s = true ->
  forall t, unquote_body (quote_body n s ++ t) = option_map (app s) (unquote_body t).
Proof.
  induction n as [|n IH]; intros s Hv t.
  { destruct s; [|discriminate]. cbn [quote_body app]. symmetry. apply option_map_app_nil. }
  destruct s as [|c s']. { cbn [quote_body app]. symmetry. apply option_map_app_nil. }
  cbn [valid_go] in Hv. cbn [quote_body].
  pose proof (decode_rune_spec (c :: s')) as D.
  remember (decode_rune (c :: s')) as d eqn:Ed. destruct d as [r w]. cbn [fst snd] in *.
  destruct (is_decode_error (r, w)) eqn:Ee; [discriminate|].
  inversion D; subst.
  - (* ASCII *)
    destruct (r <? 128) eqn:Ec; [|lia].
    cbn [skipn] in Hv. rewrite <- app_assoc, unquote_esc_ascii by lia.
    rewrite (IH _ Hv). apply option_map_cons_app.
  - rewrite decode_error_bad in Ee. discriminate.
  - (* two bytes *)
    destruct (c <? 128) eqn:Ec; [lia|].
    match goal with |- context[if ?b then _ else _] => destruct b eqn:E2 end; [lia|].
    cbn [firstn skipn app] in *. rewrite !unquote_raw by lia. rewrite (IH _ Hv).
    rewrite !option_map_cons_app. reflexivity.
  - (* three bytes *)
    destruct (c <? 128) eqn:Ec; [lia|].
    match goal with |- context[if ?b then _ else _] => destruct b eqn:E2 end.
    + assert (c = 226 /\ c1 = 128 /\ (c2 = 168 \/ c2 = 169)) as [-> [-> Hc2]] by lia.
      cbn [skipn] in *. rewrite <- app_assoc.
      destruct Hc2 as [-> | ->].
      * etransitivity; [apply unquote_2028|]. rewrite (IH _ Hv). apply option_map_app_app.
      * etransitivity; [apply unquote_2029|]. rewrite (IH _ Hv). apply option_map_app_app.
    + cbn [firstn skipn app] in *. rewrite !unquote_raw by lia. rewrite (IH _ Hv).
      rewrite !option_map_cons_app. reflexivity.
  - (* four bytes *)
    destruct (c <? 128) eqn:Ec; [lia|].
    match goal with |- context[if ?b then _ else _] => destruct b eqn:E2 end; [lia|].
    cbn [firstn skipn app] in *. rewrite !unquote_raw by lia. rewrite (IH _ Hv).
    rewrite !option_map_cons_app. reflexivity.
Qed.

Theorem unquote_quote : forall s, valid_utf8 s = true -> json_unquote (json_quote s) = Some s.
Proof.
  intros s Hv. unfold json_unquote, json_quote.
  rewrite (unquote_quote_body _ _ Hv). cbn. rewrite app_nil_r. reflexivity.
Qed.

Corollary json_quote_injective_on_valid_utf8 : forall a b,
  valid_utf8 a = true -> valid_utf8 b = true -> json_quote a = json_quote b -> a = b.
Proof.
  intros a b Ha Hb E. apply unquote_quote in Ha. apply unquote_quote in Hb.
  rewrite E in Ha. rewrite Ha in Hb. injection Hb as ->. reflexivity.
Qed.

(* valid UTF-8 consists of bytes: the byte-range hypothesis of lib/Bytes.v is implied *)
Lemma all_bytes_cons c s : c < 256 -> all_bytes s = true -> all_bytes (c :: s) = true.
Proof.
  intros Hc Hs. unfold all_bytes in *. cbn [forallb]. rewrite Hs. unfold is_byte.
  destruct (c <? 256) eqn:E; [reflexivity|lia].
Qed.

Lemma valid_go_bytes : forall n s, valid_go n s = true -> all_bytes s = true.
Proof.
  induction n as [|n IH]; intros s Hv.
  { destruct s; [reflexivity|discriminate]. }
  destruct s as [|c s']; [reflexivity|].
  cbn [valid_go] in Hv.
  pose proof (decode_rune_spec (c :: s')) as D.
  remember (decode_rune (c :: s')) as d eqn:Ed. destruct d as [r w]. cbn [fst snd] in *.
  destruct (is_decode_error (r, w)) eqn:Ee; [discriminate|].
  inversion D; subst; cbn [skipn] in Hv; try (rewrite decode_error_bad in Ee; discriminate);
    apply IH in Hv; repeat (apply all_bytes_cons; [lia|]); exact Hv.
Qed.

Lemma valid_utf8_all_bytes s : valid_utf8 s = true -> all_bytes s = true.
Proof. apply valid_go_bytes. Qed.

(* ---- concatenation of valid strings ---- *)
Lemma valid_go_more : forall n s k, valid_go n s = true -> valid_go (n + k) s = true.
Proof.
  induction n as [|n IH]; intros s k Hv.
  { destruct s; [|discriminate]. destruct (0 + k)%nat; reflexivity. }
  destruct s as [|c s']; [reflexivity|].
  cbn [Nat.add valid_go] in *.
  destruct (is_decode_error (decode_rune (c :: s'))); [discriminate|]. apply IH. exact Hv.
Qed.

(* a sequence that decodes without error decodes the same whatever follows it *)
Lemma decode_rune_app s t : s <> [] -> is_decode_error (decode_rune s) = false ->
  decode_rune (s ++ t) = decode_rune s.
Proof.
  intros Hs He.
  destruct s as [|c0 r0]; [congruence|]. cbn [app]. unfold decode_rune in *.
  destruct (c0 <? 128); [reflexivity|].
  destruct (lead_class c0); [reflexivity| | |].
  - destruct r0 as [|c1 r1]; [discriminate He|reflexivity].
  - destruct r0 as [|c1 [|c2 r2]]; try discriminate He; reflexivity.
  - destruct r0 as [|c1 [|c2 [|c3 r3]]]; try discriminate He; reflexivity.
Qed.

Lemma decode_width_le s : is_decode_error (decode_rune s) = false -> (snd (decode_rune s) <= List.length s)%nat.
Proof.
  intros He. pose proof (decode_rune_spec s) as D.
  destruct (decode_rune s) as [r w]. cbn [fst snd] in *.
  inversion D; subst; cbn [List.length]; try lia.
Qed.

Lemma skipn_app_le {A} (n : nat) (s t : list A) : (n <= List.length s)%nat -> skipn n (s ++ t) = skipn n s ++ t.
Proof.
  revert s. induction n as [|n IH]; intros s Hl; [reflexivity|].
  destruct s as [|a s]; cbn [List.length] in Hl; [lia|]. cbn [app skipn]. apply IH. lia.
Qed.

Lemma valid_go_app : forall n s m t, valid_go n s = true -> valid_go m t = true ->
  valid_go (n + m) (s ++ t) = true.
Proof.
  induction n as [|n IH]; intros s m t Hs Ht.
  { destruct s; [|discriminate]. exact Ht. }
  destruct s as [|c s'].
  { cbn [app]. rewrite Nat.add_comm. apply valid_go_more. exact Ht. }
  cbn [valid_go] in Hs.
  destruct (is_decode_error (decode_rune (c :: s'))) eqn:Ee; [discriminate|].
  change ((c :: s') ++ t) with (c :: (s' ++ t)). cbn [Nat.add valid_go].
  change (c :: (s' ++ t)) with ((c :: s') ++ t).
  rewrite (decode_rune_app (c :: s') t) by (congruence || exact Ee). rewrite Ee.
  rewrite skipn_app_le by (apply decode_width_le; exact Ee).
  apply IH; assumption.
Qed.

Theorem valid_utf8_app : forall s t, valid_utf8 s = true -> valid_utf8 t = true -> valid_utf8 (s ++ t) = true.
Proof.
  intros s t Hs Ht. unfold valid_utf8. rewrite app_length. apply valid_go_app; assumption.
Qed.

Lemma valid_utf8_ascii s : forallb (fun c => c <? 128) s = true -> valid_utf8 s = true.
Proof.
  unfold valid_utf8. induction s as [|c s IH]; intros H; [reflexivity|].
  cbn [forallb] in H. apply andb_true_iff in H as [Hc Hs].
  cbn [List.length valid_go]. unfold decode_rune. rewrite Hc. cbn [snd skipn].
  unfold is_decode_error. cbn [fst snd]. destruct (c =? rune_error) eqn:E; [unfold rune_error in E; lia|].
  cbn [andb]. apply IH. exact Hs.
Qed.

(* the first rune of a string, cut out, is a valid string *)
Lemma decode_rune_firstn s : is_decode_error (decode_rune s) = false ->
  decode_rune (firstn (snd (decode_rune s)) s) = decode_rune s.
Proof.
  intros He. destruct s as [|c0 r0]; [reflexivity|]. unfold decode_rune in *.
  destruct (c0 <? 128) eqn:Ec; [cbn [snd firstn]; rewrite Ec; reflexivity|].
  destruct (lead_class c0) eqn:El; [discriminate He| | |].
  - destruct r0 as [|c1 r1]; [discriminate He|].
    destruct (is_cont c1) eqn:E1; [|discriminate He].
    cbn [snd firstn]. rewrite Ec, El, E1. reflexivity.
  - destruct r0 as [|c1 [|c2 r2]]; try discriminate He.
    destruct (in_range lo hi c1 && is_cont c2) eqn:E1; [|discriminate He].
    cbn [snd firstn]. rewrite Ec, El, E1. reflexivity.
  - destruct r0 as [|c1 [|c2 [|c3 r3]]]; try discriminate He.
    destruct (in_range lo hi c1 && is_cont c2 && is_cont c3) eqn:E1; [|discriminate He].
    cbn [snd firstn]. rewrite Ec, El, E1. reflexivity.
Qed.

Lemma valid_first_rune s : s <> [] -> is_decode_error (decode_rune s) = false ->
  valid_utf8 (firstn (snd (decode_rune s)) s) = true.
Proof.
  intros Hs He. pose proof (decode_rune_firstn s He) as Hf.
  assert (1 <= snd (decode_rune s))%nat as Hw.
  { pose proof (decode_rune_spec s) as D. destruct (decode_rune s) as [r w]. cbn [fst snd] in *.
    inversion D; subst; try lia. congruence. }
  set (w := snd (decode_rune s)) in *. unfold valid_utf8.
  destruct (firstn w s) as [|c p] eqn:Ep; [reflexivity|].
  cbn [List.length valid_go]. rewrite Hf, He. fold w. rewrite <- Ep.
  rewrite skipn_all2 by apply firstn_le_length. destruct (List.length p); reflexivity.
Qed.

(* ---- the shape of the writer's output, for EVERY input (valid or not) ---- *)
Inductive quoted : bytes -> bytes -> Prop :=
| QNil : quoted [] []
| QAscii c s o : c < 128 -> quoted s o -> quoted (c :: s) (esc_ascii c ++ o)
| QBad c s o : 128 <= c -> quoted s o -> quoted (c :: s) (esc_fffd ++ o)
| QSep c2 h s o : (c2 = 168 /\ h = 56) \/ (c2 = 169 /\ h = 57) -> quoted s o ->
    quoted (226 :: 128 :: c2 :: s) ([92; 117; 50; 48; 50; h] ++ o)
| QRaw p s o : (2 <= List.length p <= 4)%nat -> Forall (fun b => 128 <= b < 256) p ->
    valid_utf8 p = true -> quoted s o -> quoted (p ++ s) (p ++ o).

Lemma quote_body_quoted : forall n s, (List.length s <= n)%nat -> quoted s (quote_body n s).
Proof.
  induction n as [|n IH]; intros s Hl.
  { destruct s; [constructor|cbn [List.length] in Hl; lia]. }
  destruct s as [|c s']; [constructor|].
  cbn [List.length] in Hl. cbn [quote_body].
  destruct (c <? 128) eqn:Ec.
  { apply QAscii; [lia|]. apply IH. lia. }
  pose proof (decode_rune_spec (c :: s')) as D.
  pose proof (valid_first_rune (c :: s') ltac:(discriminate)) as Hvp.
  remember (decode_rune (c :: s')) as d eqn:Ed. destruct d as [r w]. cbn [fst snd] in *.
  destruct (is_decode_error (r, w)) eqn:Ee.
  { apply QBad; [lia|]. apply IH. lia. }
  specialize (Hvp eq_refl).
  inversion D; subst; try lia; try (rewrite decode_error_bad in Ee; discriminate).
  - match goal with |- context[if ?b then _ else _] => destruct b eqn:E2 end; [lia|].
    cbn [firstn skipn] in *.
    apply (QRaw [c; c1]); [cbn; lia| |exact Hvp|apply IH; cbn [List.length] in *; lia].
    repeat constructor; lia.
  - match goal with |- context[if ?b then _ else _] => destruct b eqn:E2 end.
    + assert (c = 226 /\ c1 = 128 /\ (c2 = 168 \/ c2 = 169)) as [-> [-> Hc2]] by lia.
      cbn [skipn]. apply QSep; [|apply IH; cbn [List.length] in *; lia].
      destruct Hc2 as [-> | ->]; [left|right]; split; reflexivity.
    + cbn [firstn skipn] in *.
      apply (QRaw [c; c1; c2]); [cbn; lia| |exact Hvp|apply IH; cbn [List.length] in *; lia].
      repeat constructor; lia.
  - match goal with |- context[if ?b then _ else _] => destruct b eqn:E2 end; [lia|].
    cbn [firstn skipn] in *.
    apply (QRaw [c; c1; c2; c3]); [cbn; lia| |exact Hvp|apply IH; cbn [List.length] in *; lia].
    repeat constructor; lia.
Qed.

Lemma json_quote_shape s : exists o, json_quote s = 34 :: o ++ [34] /\ quoted s o.
Proof. eexists. split; [reflexivity|]. apply quote_body_quoted. lia. Qed.

Lemma hex_lower_range n : n < 16 -> 48 <= hex_lower n <= 57 \/ 97 <= hex_lower n <= 102.
Proof. intros H. unfold hex_lower. destruct (n <? 10) eqn:E; lia. Qed.

Definition printable (b : N) : Prop := 32 <= b < 256.

Lemma esc_ascii_printable c : c < 128 -> Forall printable (esc_ascii c).
Proof.
  intros Hc. unfold esc_ascii, printable.
  pose proof (N.div_mod' c 16) as Hd. pose proof (N.mod_lt c 16 ltac:(lia)) as Hm.
  pose proof (hex_lower_range (c / 16) ltac:(lia)). pose proof (hex_lower_range (c mod 16) ltac:(lia)).
  destruct (html_safe c) eqn:Hs; [unfold html_safe in Hs; repeat constructor; lia|].
  repeat brk; repeat constructor; lia.
Qed.

(* no raw control byte, nothing that is not a byte: whatever the input *)
Lemma quoted_printable s o : quoted s o -> Forall printable o.
Proof.
  induction 1 as [|c s o Hc _ IH|c s o Hc _ IH|c2 h s o Hh _ IH|p s o Hl Hp Hvp _ IH].
  - constructor.
  - apply Forall_app. split; [apply esc_ascii_printable; exact Hc|exact IH].
  - apply Forall_app. split; [unfold esc_fffd, printable; repeat constructor; lia|exact IH].
  - apply Forall_app. split; [|exact IH]. unfold printable. repeat constructor; lia.
  - apply Forall_app. split; [|exact IH]. eapply Forall_impl; [|exact Hp]. unfold printable. cbn beta. lia.
Qed.

Theorem json_quote_printable : forall s, Forall printable (json_quote s).
Proof.
  intros s. unfold json_quote. constructor; [unfold printable; lia|].
  apply Forall_app. split; [|repeat constructor; unfold printable; lia].
  eapply quoted_printable. apply quote_body_quoted. lia.
Qed.

(* a piece the JSON string lexer walks through without closing the string *)
Definition transparent (p : bytes) : Prop := forall x, string_rest (p ++ x) = string_rest x.

Lemma transparent_raw c : c <> 34 -> c <> 92 -> transparent [c].
Proof.
  intros H1 H2 x. cbn [app string_rest].
  destruct (c =? 34) eqn:E1; [lia|]. destruct (c =? 92) eqn:E2; [lia|]. reflexivity.
Qed.

Lemma transparent_app p q : transparent p -> transparent q -> transparent (p ++ q).
Proof. intros Hp Hq x. rewrite <- app_assoc, Hp, Hq. reflexivity. Qed.

Lemma transparent_escape e : transparent [92; e].
Proof. intros x. reflexivity. Qed.

Lemma transparent_cons c p : c <> 34 -> c <> 92 -> transparent p -> transparent (c :: p).
Proof. intros H1 H2 Hp. apply (transparent_app [c] p); [apply transparent_raw; assumption|exact Hp]. Qed.

Lemma transparent_nil : transparent [].
Proof. intros x. reflexivity. Qed.

Lemma transparent_u a b c d : a <> 34 -> a <> 92 -> b <> 34 -> b <> 92 -> c <> 34 -> c <> 92 -> d <> 34 -> d <> 92 ->
  transparent [92; 117; a; b; c; d].
Proof.
  intros. apply (transparent_app [92; 117] [a; b; c; d]); [apply transparent_escape|].
  repeat (apply transparent_cons; [assumption|assumption|]). apply transparent_nil.
Qed.

Lemma esc_ascii_transparent c : c < 128 -> transparent (esc_ascii c).
Proof.
  intros Hc. unfold esc_ascii.
  pose proof (N.div_mod' c 16) as Hd. pose proof (N.mod_lt c 16 ltac:(lia)) as Hm.
  pose proof (hex_lower_range (c / 16) ltac:(lia)). pose proof (hex_lower_range (c mod 16) ltac:(lia)).
  destruct (html_safe c) eqn:Hs; [unfold html_safe in Hs; apply transparent_raw; lia|].
  repeat brk; try apply transparent_escape. apply transparent_u; lia.
Qed.

Lemma raw_transparent p : Forall (fun b => 128 <= b < 256) p -> transparent p.
Proof.
  induction 1 as [|c p Hc _ IH]; [apply transparent_nil|]. apply transparent_cons; [lia|lia|exact IH].
Qed.

Lemma quoted_transparent s o : quoted s o -> transparent o.
Proof.
  induction 1 as [|c s o Hc _ IH|c s o Hc _ IH|c2 h s o Hh _ IH|p s o Hl Hp Hvp _ IH].
  - apply transparent_nil.
  - apply transparent_app; [apply esc_ascii_transparent; exact Hc|exact IH].
  - apply transparent_app; [apply transparent_u; lia|exact IH].
  - apply transparent_app; [apply transparent_u; lia|exact IH].
  - apply transparent_app; [apply raw_transparent; exact Hp|exact IH].
Qed.

(* the key cannot break out of its string: in ANY text that continues after json_quote s, a reader that has
   consumed the opening quote finds the end of the string exactly at json_quote's closing quote *)
Theorem json_quote_delimited : forall s t,
  exists o, json_quote s ++ t = 34 :: o ++ 34 :: t /\ string_rest (o ++ 34 :: t) = Some t.
Proof.
  intros s t. exists (quote_body (List.length s) s). split.
  - unfold json_quote. cbn [app]. rewrite <- app_assoc. reflexivity.
  - rewrite (quoted_transparent s); [reflexivity|]. apply quote_body_quoted. lia.
Qed.

Lemma esc_ascii_length c : (1 <= List.length (esc_ascii c) <= 6)%nat.
Proof. unfold esc_ascii. repeat brk; cbn [List.length]; lia. Qed.

Lemma quoted_length s o : quoted s o -> (List.length s <= List.length o <= 6 * List.length s)%nat.
Proof.
  induction 1 as [|c s o Hc _ IH|c s o Hc _ IH|c2 h s o Hh _ IH|p s o Hl Hp Hvp _ IH];
    rewrite ?app_length; unfold esc_fffd; cbn [List.length]; try lia.
  pose proof (esc_ascii_length c). lia.
Qed.

Theorem json_quote_length : forall s,
  (List.length s + 2 <= List.length (json_quote s) <= 6 * List.length s + 2)%nat.
Proof.
  intros s. unfold json_quote. cbn [List.length]. rewrite app_length. cbn [List.length].
  pose proof (quoted_length s _ (quote_body_quoted _ s (le_n _))). lia.
Qed.

Lemma esc_ascii_ascii c : c < 128 -> forallb (fun b => b <? 128) (esc_ascii c) = true.
Proof.
  intros Hc. unfold esc_ascii.
  pose proof (N.div_mod' c 16) as Hd. pose proof (N.mod_lt c 16 ltac:(lia)) as Hm.
  pose proof (hex_lower_range (c / 16) ltac:(lia)). pose proof (hex_lower_range (c mod 16) ltac:(lia)).
  repeat brk; cbn [forallb]; rewrite ?andb_true_r; repeat (apply andb_true_iff; split); lia.
Qed.

Lemma quoted_valid s o : quoted s o -> valid_utf8 o = true.
Proof.
  induction 1 as [|c s o Hc _ IH|c s o Hc _ IH|c2 h s o Hh _ IH|p s o Hl Hp Hvp _ IH].
  - reflexivity.
  - apply valid_utf8_app; [|exact IH]. apply valid_utf8_ascii, esc_ascii_ascii. exact Hc.
  - apply valid_utf8_app; [reflexivity|exact IH].
  - apply valid_utf8_app; [|exact IH]. destruct Hh as [[_ ->]|[_ ->]]; reflexivity.
  - apply valid_utf8_app; assumption.
Qed.

(* the JSON text of a key is valid UTF-8 whatever bytes the key holds *)
Theorem json_quote_valid_utf8 : forall s, valid_utf8 (json_quote s) = true.
Proof.
  intros s. unfold json_quote. apply (valid_utf8_app [34]); [reflexivity|].
  apply valid_utf8_app; [|reflexivity]. eapply quoted_valid. apply quote_body_quoted. lia.
Qed.

(* ---- REFUTED: json_quote is not injective on byte strings ---- *)
Definition collapse_a : bytes := [47; 97; 255].     (* /a\xff *)
Definition collapse_b : bytes := [47; 97; 254].     (* /a\xfe *)

Theorem json_quote_not_injective_refuted :
  collapse_a <> collapse_b /\ all_bytes collapse_a = true /\ all_bytes collapse_b = true /\
  valid_utf8 collapse_a = false /\ valid_utf8 collapse_b = false /\
  json_quote collapse_a = json_quote collapse_b /\
  json_quote collapse_a = [34; 47; 97; 92; 117; 102; 102; 102; 100; 34].
Proof. repeat split; try (vm_compute; reflexivity). discriminate. Qed.

(* ---- lists of keys ---- *)
Lemma NoDup_map_inj_on {A B} (f : A -> B) (l : list A) :
  (forall a b, In a l -> In b l -> f a = f b -> a = b) -> NoDup l -> NoDup (map f l).
Proof.
  induction l as [|a l IH]; intros Hinj Hnd; cbn [map]; [constructor|].
  inversion Hnd; subst. constructor.
  - intro H. apply in_map_iff in H as [b [Hb1 Hb2]].
    assert (b = a) by (apply Hinj; [right; exact Hb2 | left; reflexivity | exact Hb1]).
    subst b. contradiction.
  - apply IH; [|assumption]. intros x y Hx Hy. apply Hinj; right; assumption.
Qed.

Lemma NoDup_map_json_quote : forall l : list bytes,
  NoDup l -> (forall k, In k l -> valid_utf8 k = true) -> NoDup (map json_quote l).
Proof.
  intros l Hn Hv. apply NoDup_map_inj_on; [|exact Hn].
  intros a b Ha Hb. apply json_quote_injective_on_valid_utf8; auto.
Qed.
