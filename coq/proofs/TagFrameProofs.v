(* C20 (b), TAG: a TAG declaration that nothing uses, inserted at (or removed from) an arbitrary top-level
   position.  The analogue of InsertProofs.step_srel for the tag collection. *)
From Coq Require Import List NArith Bool String Lia Permutation.
From JV.lib Require Import Bytes.
From JV.gen Require Import DirectiveTables TagName.
From JV.model Require Import ScannerSem Core Description PathParams TagTitle Catalog.
From JV.proofs Require Import BytesLemmas TagNameProofs CatalogProofs FaithfulProofs LocalityProofs OrderProofs FrameProofs InsertProofs.
Import ListNotations.
Open Scope N_scope.

Definition set_tag (S : list (bytes * tag)) (b : bstate) : bstate :=
  {| b_cat := upd_tags (b_cat b) S; b_urls := b_urls b; b_similar := b_similar b; b_protocols := b_protocols b |}.

Lemma set_tag_id b : set_tag (c_tags (b_cat b)) b = b.
Proof. destruct b as [c u s p]. destruct c. reflexivity. Qed.

Ltac tnorm :=
  cbn [b_cat b_urls b_similar b_protocols set_tag with_cat cmap
       c_jsight c_info c_servers c_types c_enums c_inters c_tags
       upd_servers upd_inters upd_tags upd_info upd_types upd_enums upd_jsight].

Ltac twalk1 :=
  tnorm; cbv beta iota zeta; tnorm;
  lazymatch goal with
  | |- (match ?X with _ => _ end) = _ => head_disc X ltac:(fun Z => destruct Z eqn:?)
  end; cbv beta iota zeta; tnorm.
Ltac twalk := repeat twalk1; try reflexivity.

Ltac tframe_kinds rw :=
  repeat match goal with
         | |- context [kind_eqb ?a ?b] =>
           let v := eval vm_compute in (kind_eqb a b) in
           lazymatch v with true => idtac | false => idtac end; change (kind_eqb a b) with v
         | |- context [is_http_method ?a] =>
           let v := eval vm_compute in (is_http_method a) in
           lazymatch v with true => idtac | false => idtac end; change (is_http_method a) with v
         end; cbv beta iota delta [orb];
  unfold kerr, berr, get_http, get_rpc, upd_http, upd_rpc, cbind;
  repeat first [ rw
               | match goal with |- context [check_path ?d ?bb ?p] => destruct (check_path d bb p) eqn:?; tnorm; cbv beta iota zeta; tnorm end
               | twalk1 ];
  try reflexivity.

Section TagFrame.
  Variable body_text : coords -> bytes.
  Variable banned : list kind.

  Lemma check_path_tag S d b p : check_path d (set_tag S b) p = cmap (set_tag S) (check_path d b p).
  Proof. unfold check_path, kerr. twalk. Qed.
  Lemma add_request_tag S d anc b : add_request d anc (set_tag S b) = cmap (set_tag S) (add_request d anc b).
  Proof. unfold add_request, kerr, get_http, upd_http. cbv zeta. destruct (kind_eqb (d_kind d) KRequest); twalk. Qed.
  Lemma add_response_tag S d anc b : add_response d anc (set_tag S b) = cmap (set_tag S) (add_response d anc b).
  Proof. unfold add_response, kerr, get_http, upd_http, cbind. cbv zeta. twalk. Qed.

  (* only GET/POST/../Method (tags_for), Tags (CheckTags) and Description (under TAG) read or write the tags *)
  Definition tag_kind (k : kind) : bool :=
    is_http_method k || kind_eqb k KMethod || kind_eqb k KTags || kind_eqb k KDescription.

  Lemma add_directive_tag S t anc b :
    tag_kind (dk t) = false ->
    add_directive body_text banned t anc (set_tag S b) = cmap (set_tag S) (add_directive body_text banned t anc b).
  Proof.
    unfold dk. intros H1. unfold add_directive. cbv zeta.
    destruct (kind_in (d_kind (tree_dir t)) banned); [reflexivity|].
    destruct (d_kind (tree_dir t)) eqn:Hk; try discriminate H1;
      tframe_kinds ltac:(progress rewrite ?check_path_tag, ?add_request_tag, ?add_response_tag).
  Qed.
End TagFrame.

