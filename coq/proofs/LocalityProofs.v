(* C20 (locality) and C10 (declaration order) on the catalog model *)
From Coq Require Import List NArith Bool String Lia Permutation.
From JV.lib Require Import Bytes.
From JV.gen Require Import DirectiveTables TagName.
From JV.model Require Import ScannerSem Core Description PathParams TagTitle Catalog.
From JV.proofs Require Import BytesLemmas TagNameProofs CatalogProofs FaithfulProofs.
Import ListNotations.
Open Scope N_scope.

(* ------------------------------------------------------------------------------------- *)
(* build, stage by stage (an equivalence)                                                  *)

Section Stages.
  Variable path_props : coords -> option (list bytes).
  Variable body_text : coords -> bytes.
  Variable banned : list kind.

  (* the stages of build over a forest that starts with [first] *)
  Definition stages (post : list dtree) (en : list (bytes * bytes)) (tg : list (bytes * tag)) (pvs : list rawpv)
             (b : bstate) (all : list (bytes * bytes)) : Prop :=
    collect_enums post [] = COk en /\ collect_tags post [] = COk tg /\ check_dup_types post [] = COk tt /\
    collect_paths_all path_props post [] = COk pvs /\
    add_all body_text banned post (init_state en tg) = COk b /\ bind_all pvs [] = COk all.

  Lemma build_iff first rest c :
    build path_props body_text banned (first :: rest) = COk c <->
    d_kind (tree_dir first) = KJsight /\
    exists en tg pvs b all, stages (first :: rest) en tg pvs b all /\ validate (set_pathvars (b_cat b) all) = COk c.
  Proof.
    unfold build, stages, cbind, kerr. split.
    - intro H.
      destruct (collect_enums (first :: rest) []) as [en| | |]; try discriminate H.
      destruct (collect_tags (first :: rest) []) as [tg| | |]; try discriminate H.
      destruct (check_dup_types (first :: rest) []) as [[]| | |]; try discriminate H.
      destruct (collect_paths_all path_props (first :: rest) []) as [pvs| | |]; try discriminate H.
      destruct (kind_eqb (d_kind (tree_dir first)) KJsight) eqn:Ek; [|discriminate H]. cbn [negb] in H. cbv iota in H.
      match type of H with (match ?X with _ => _ end) = _ => destruct X as [b| | |] eqn:E end; try discriminate H.
      destruct (bind_all pvs []) as [all| | |] eqn:Eb; try discriminate H.
      split; [apply kind_eqb_eq; exact Ek|]. exists en, tg, pvs, b, all. repeat split; try reflexivity; try assumption.
    - intros [Hk [en [tg [pvs [b [all [[A [B [C [D [E F]]]]] V]]]]]]].
      rewrite A, B, C, D. apply kind_eqb_eq in Hk. rewrite Hk. cbn [negb]. cbv iota.
      unfold init_state, init_cat in E. rewrite E, F. exact V.
  Qed.
End Stages.

(* ------------------------------------------------------------------------------------- *)
(* the collect passes over an appended forest                                               *)

Lemma collect_enums_app a b : forall acc, collect_enums (a ++ b) acc = collect_enums a acc >>=c collect_enums b.
Proof.
  induction a as [|t r IH]; intro acc; [reflexivity|]. cbn [app collect_enums].
  destruct (kind_eqb (d_kind (tree_dir t)) KEnum); [|apply IH].
  destruct (beq (named (tree_dir t) (bs "Name")) []); [reflexivity|].
  destruct (d_body (tree_dir t)); [|apply IH].
  destruct (om_has beq acc (named (tree_dir t) (bs "Name"))); [reflexivity | apply IH].
Qed.

Lemma collect_tags_app a b : forall acc, collect_tags (a ++ b) acc = collect_tags a acc >>=c collect_tags b.
Proof.
  induction a as [|t r IH]; intro acc; [reflexivity|]. cbn [app collect_tags].
  destruct (kind_eqb (d_kind (tree_dir t)) KTAG); [|apply IH].
  destruct (beq (named (tree_dir t) (bs "TagName")) []); [reflexivity|].
  destruct (om_has beq acc (named (tree_dir t) (bs "TagName"))); [reflexivity | apply IH].
Qed.

(* TYPE names seen by check_dup_types *)
Definition dup_seen (ts : list dtree) (seen : list bytes) : list bytes :=
  fold_left (fun s t => if kind_eqb (dk t) KType && negb (beq (named (tree_dir t) (bs "Name")) [])
                        then named (tree_dir t) (bs "Name") :: s else s) ts seen.

Lemma dup_seen_cons t r seen :
  dup_seen (t :: r) seen =
  dup_seen r (if kind_eqb (dk t) KType && negb (beq (named (tree_dir t) (bs "Name")) [])
              then named (tree_dir t) (bs "Name") :: seen else seen).
Proof. reflexivity. Qed.

Lemma check_dup_types_app a b : forall seen,
  check_dup_types (a ++ b) seen = check_dup_types a seen >>=c fun _ => check_dup_types b (dup_seen a seen).
Proof.
  induction a as [|t r IH]; intro seen; [reflexivity|]. cbn [app check_dup_types]. rewrite dup_seen_cons.
  unfold dk. destruct (kind_eqb (d_kind (tree_dir t)) KType); cbn [andb]; [|apply IH].
  destruct (beq (named (tree_dir t) (bs "Name")) []); cbn [negb]; [apply IH|].
  destruct (existsb (beq (named (tree_dir t) (bs "Name"))) seen); [reflexivity | apply IH].
Qed.

Lemma collect_paths_all_app pp a b : forall acc,
  collect_paths_all pp (a ++ b) acc = collect_paths_all pp a acc >>=c collect_paths_all pp b.
Proof.
  induction a as [|t r IH]; intro acc; [reflexivity|]. cbn [app collect_paths_all].
  destruct (collect_paths pp t [] false acc); simpl; try reflexivity. apply IH.
Qed.

(* a childless node that is neither MACRO nor Path contributes no path variables *)
Lemma collect_paths_leaf pp t acc :
  tree_kids t = [] -> kind_eqb (dk t) KMacro = false -> kind_eqb (dk t) KPath = false ->
  collect_paths pp t [] false acc = COk acc.
Proof.
  destruct t as [d ks]. unfold dk. simpl. intros -> H1 H2. rewrite H1, H2. reflexivity.
Qed.

Lemma collect_enums_snoc_other ts t :
  kind_eqb (dk t) KEnum = false -> collect_enums (ts ++ [t]) [] = collect_enums ts [].
Proof.
  unfold dk. intro H. rewrite collect_enums_app. destruct (collect_enums ts []); simpl; try reflexivity. rewrite H. reflexivity.
Qed.

Lemma collect_tags_snoc_other ts t :
  kind_eqb (dk t) KTAG = false -> collect_tags (ts ++ [t]) [] = collect_tags ts [].
Proof.
  unfold dk. intro H. rewrite collect_tags_app. destruct (collect_tags ts []); simpl; try reflexivity. rewrite H. reflexivity.
Qed.

Lemma collect_paths_snoc_leaf pp ts t :
  tree_kids t = [] -> kind_eqb (dk t) KMacro = false -> kind_eqb (dk t) KPath = false ->
  collect_paths_all pp (ts ++ [t]) [] = collect_paths_all pp ts [].
Proof.
  intros A B C. rewrite collect_paths_all_app. destruct (collect_paths_all pp ts []); simpl; try reflexivity.
  rewrite (collect_paths_leaf pp t a A B C). reflexivity.
Qed.

Section Snoc.
  Variable path_props : coords -> option (list bytes).
  Variable body_text : coords -> bytes.
  Variable banned : list kind.

  Lemma add_all_snoc_leaf ts t s :
    tree_kids t = [] ->
    add_all body_text banned (ts ++ [t]) s = add_all body_text banned ts s >>=c add_directive body_text banned t [].
  Proof.
    intro Hk. rewrite add_all_app. destruct (add_all body_text banned ts s) as [b| | |]; simpl; try reflexivity.
    rewrite add_branch_eq, Hk. simpl.
    destruct (add_directive body_text banned t [] b); reflexivity.
  Qed.

  (* a childless node that no collect pass looks at, appended at the END of the forest *)
  Definition plain_leaf (t : dtree) : Prop :=
    tree_kids t = [] /\ kind_eqb (dk t) KEnum = false /\ kind_eqb (dk t) KTAG = false /\
    kind_eqb (dk t) KMacro = false /\ kind_eqb (dk t) KPath = false.

  Lemma build_snoc_leaf first rest t c' :
    plain_leaf t ->
    (build path_props body_text banned ((first :: rest) ++ [t]) = COk c' <->
     d_kind (tree_dir first) = KJsight /\
     exists en tg pvs b all b',
       stages path_props body_text banned (first :: rest) en tg pvs b all /\
       check_dup_types [t] (dup_seen (first :: rest) []) = COk tt /\
       add_directive body_text banned t [] b = COk b' /\
       validate (set_pathvars (b_cat b') all) = COk c').
  Proof.
    intros [L1 [L2 [L3 [L4 L5]]]].
    change ((first :: rest) ++ [t]) with (first :: (rest ++ [t])). rewrite build_iff.
    change (first :: (rest ++ [t])) with ((first :: rest) ++ [t]). unfold stages.
    rewrite (collect_enums_snoc_other _ _ L2), (collect_tags_snoc_other _ _ L3),
            (collect_paths_snoc_leaf path_props _ _ L1 L4 L5), check_dup_types_app.
    split.
    - intros [Hk [en [tg [pvs [b' [all [[A [B [C [D [E F]]]]] V]]]]]]]. split; [exact Hk|].
      rewrite (add_all_snoc_leaf _ _ _ L1) in E.
      destruct (add_all body_text banned (first :: rest) (init_state en tg)) as [b| | |] eqn:Eb; simpl in E; try discriminate E.
      destruct (check_dup_types (first :: rest) []) as [[]| | |] eqn:Ec; simpl in C; try discriminate C.
      exists en, tg, pvs, b, all, b'. repeat split; assumption.
    - intros [Hk [en [tg [pvs [b [all [b' [[A [B [C [D [E F]]]]] [G [S V]]]]]]]]]]. split; [exact Hk|].
      exists en, tg, pvs, b', all. rewrite (add_all_snoc_leaf _ _ _ L1), E, C. simpl. repeat split; assumption.
  Qed.
End Snoc.

(* ------------------------------------------------------------------------------------- *)
(* validate looks at info and interactions only                                             *)

Definition info_ok (c : catalog) : Prop :=
  match c_info c with
  | Some i => (beq (in_title i) [] && beq (in_version i) [] && match in_desc i with None => true | Some _ => false end) = false
  | None => True
  end.

Lemma validate_iff c0 c :
  validate c0 = COk c <->
  c = c0 /\ info_ok c0 /\ first_bad_request (c_inters c0) = None /\ first_bad_response (c_inters c0) = None.
Proof.
  unfold validate, info_ok, kerr, cbind. split.
  - intro H. destruct (c_info c0) as [i|].
    + destruct (beq (in_title i) [] && beq (in_version i) [] && match in_desc i with None => true | Some _ => false end);
        [discriminate H|].
      destruct (first_bad_request (c_inters c0)); [discriminate H|].
      destruct (first_bad_response (c_inters c0)); [discriminate H|]. inversion H. auto.
    + destruct (first_bad_request (c_inters c0)); [discriminate H|].
      destruct (first_bad_response (c_inters c0)); [discriminate H|]. inversion H. auto.
  - intros [-> [A [B C]]]. destruct (c_info c0) as [i|]; [rewrite A|]; rewrite B, C; reflexivity.
Qed.

(* a change of the catalog that touches neither info nor interactions commutes with the last stages *)
Lemma validate_frame (f : catalog -> catalog) cb all c' :
  (forall x, c_info (f x) = c_info x /\ c_inters (f x) = c_inters x) ->
  (forall x, set_pathvars (f x) all = f (set_pathvars x all)) ->
  (validate (set_pathvars (f cb) all) = COk c' <->
   exists c, validate (set_pathvars cb all) = COk c /\ c' = f c).
Proof.
  intros Hf Hs. rewrite Hs. rewrite validate_iff. split.
  - intros [-> [A [B C]]]. exists (set_pathvars cb all). split; [|reflexivity].
    apply validate_iff. destruct (Hf (set_pathvars cb all)) as [F1 F2].
    unfold info_ok in *. rewrite F1 in A. rewrite F2 in B, C. auto.
  - intros [c [V ->]]. apply validate_iff in V as [-> [A [B C]]].
    destruct (Hf (set_pathvars cb all)) as [F1 F2]. unfold info_ok. rewrite F1, F2. auto.
Qed.

Lemma add_directive_server bt banned t anc b :
  dk t = KServer ->
  add_directive bt banned t anc b =
  let d := tree_dir t in let n := named d (bs "Name") in
  if kind_in KServer banned then CErr (kw_err d (CENotAllowed KServer))
  else if beq n [] then kerr d "required parameter"
  else if om_has beq (c_servers (b_cat b)) n then kerr d "duplicate names"
  else COk (with_cat b (upd_servers (b_cat b) (c_servers (b_cat b) ++ [(n, {| s_annot := d_annot d; s_base := [] |})]))).
Proof. unfold dk. intro Hk. unfold add_directive. cbv zeta. rewrite Hk. reflexivity. Qed.

Lemma add_directive_type bt banned t anc b :
  dk t = KType ->
  add_directive bt banned t anc b =
  let d := tree_dir t in let n := named d (bs "Name") in
  if kind_in KType banned then CErr (kw_err d (CENotAllowed KType))
  else if beq n [] then kerr d "required parameter"
  else if om_has beq (c_types (b_cat b)) n then kerr d "duplicate names"
  else match norm_notation (named d (bs "SchemaNotation")) with
       | None => kerr d "unknown schema notation"
       | Some nt =>
         if (beq nt (bs "jsight") || beq nt (bs "regex")) && (match d_body d with None => true | Some _ => false end)
         then kerr d "empty body"
         else COk (with_cat b (upd_types (b_cat b) (c_types (b_cat b) ++ [(n, {| ut_annot := d_annot d; ut_notation := nt; ut_schema := schema_of d |})])))
       end.
Proof. unfold dk. intro Hk. unfold add_directive. cbv zeta. rewrite Hk. reflexivity. Qed.

Lemma dup_seen_type_names ts : forall seen n, In n (dup_seen ts seen) -> In n seen \/ In n (type_names (positions_all ts)).
Proof.
  induction ts as [|t r IH]; intros seen n H; [left; exact H|].
  rewrite dup_seen_cons in H. apply IH in H as [H|H].
  - destruct (kind_eqb (dk t) KType) eqn:Ek; cbn [andb] in H; [|left; exact H].
    destruct (beq (named (tree_dir t) (bs "Name")) []); cbn [negb] in H; [left; exact H|].
    destruct H as [<-|H]; [|left; exact H]. right. unfold type_names. cbn [positions_all]. rewrite flat_map_app.
    apply in_or_app. left. rewrite positions_eq. cbn [flat_map fst]. apply in_or_app. left.
    unfold type_delta. rewrite Ek. left; reflexivity.
  - right. unfold type_names in *. cbn [positions_all]. rewrite flat_map_app. apply in_or_app. right. exact H.
Qed.

Lemma first_bad_request_app l1 l2 : first_bad_request (l1 ++ l2) = None -> first_bad_request l1 = None.
Proof.
  induction l1 as [|[j y] l1 IH]; simpl; intro H; [reflexivity|].
  destruct y as [h|r]; [|exact (IH H)].
  destruct (hi_request h) as [rq|]; [|exact (IH H)]. destruct (q_body rq); [exact (IH H) | exact H].
Qed.

Lemma first_bad_response_app l1 l2 : first_bad_response (l1 ++ l2) = None -> first_bad_response l1 = None.
Proof.
  induction l1 as [|[j y] l1 IH]; simpl; intro H; [reflexivity|].
  destruct y as [h|r]; [|exact (IH H)].
  destruct (find (fun x => match r_body x with None => true | Some _ => false end) (hi_responses h)); [exact H | exact (IH H)].
Qed.

Section Appended.
  Variable path_props : coords -> option (list bytes).
  Variable body_text : coords -> bytes.
  Variable banned : list kind.
  Notation build := (build path_props body_text banned).

  (* the catalog is the run's state: the state the appended directive is added to *)
  Lemma stages_build first rest en tg pvs b all c :
    d_kind (tree_dir first) = KJsight ->
    stages path_props body_text banned (first :: rest) en tg pvs b all ->
    validate (set_pathvars (b_cat b) all) = COk c -> build (first :: rest) = COk c.
  Proof. intros Hk S V. apply build_iff. split; [exact Hk|]. exists en, tg, pvs, b, all. split; assumption. Qed.

  (* C20 (a), SERVER: appending a SERVER declaration at the end is accepted iff the project without it is
     and the name is given and new; the catalog is the old one plus exactly that server, at the end *)
  Theorem server_appended_lemma first rest t c' :
    tree_kids t = [] -> dk t = KServer -> kind_in KServer banned = false ->
    let n := named (tree_dir t) (bs "Name") in
    (build ((first :: rest) ++ [t]) = COk c' <->
     exists c, build (first :: rest) = COk c /\ n <> [] /\ ~ In n (map fst (c_servers c)) /\
               c' = upd_servers c (c_servers c ++ [(n, {| s_annot := d_annot (tree_dir t); s_base := [] |})])).
  Proof.
    intros Hl Hk Hb n.
    assert (Hpl : plain_leaf t) by (unfold plain_leaf; rewrite Hk; repeat split; auto).
    rewrite (build_snoc_leaf _ _ _ first rest t c' Hpl).
    assert (Hdup : forall seen, check_dup_types [t] seen = COk tt).
    { intro seen. simpl. unfold dk in Hk. rewrite Hk. reflexivity. }
    set (S := fun (x : catalog) => upd_servers x (c_servers x ++ [(n, {| s_annot := d_annot (tree_dir t); s_base := [] |})])).
    split.
    - intros [Hj [en [tg [pvs [b [all [b' [St [_ [Hadd V]]]]]]]]]].
      rewrite (add_directive_server _ _ _ _ _ Hk) in Hadd. cbv zeta in Hadd. rewrite Hb in Hadd. unfold kerr in Hadd.
      fold n in Hadd. destruct (beq n []) eqn:En; [discriminate Hadd|].
      destruct (om_has beq (c_servers (b_cat b)) n) eqn:Eh; [discriminate Hadd|]. inversion Hadd; subst b'; clear Hadd.
      rewrite b_cat_with_cat in V.
      apply (validate_frame S (b_cat b) all c') in V as [c [V ->]];
        [| intro x; split; reflexivity | intro x; reflexivity].
      exists c. split; [exact (stages_build _ _ _ _ _ _ _ _ Hj St V)|].
      split; [apply beq_false_ne; exact En|]. apply validate_iff in V as [-> _]. split; [|reflexivity].
      apply (om_has_false beq beq_eq). exact Eh.
    - intros [c [Hc [Hn [Hfresh ->]]]]. apply build_iff in Hc as [Hj [en [tg [pvs [b [all [St V]]]]]]].
      split; [exact Hj|]. pose proof V as V0. apply validate_iff in V0 as [-> _].
      exists en, tg, pvs, b, all, (with_cat b (S (b_cat b))). split; [exact St|]. split; [apply Hdup|]. split.
      + rewrite (add_directive_server _ _ _ _ _ Hk). cbv zeta. rewrite Hb. fold n.
        apply beq_false_ne in Hn. rewrite Hn.
        apply (om_has_false beq beq_eq) in Hfresh. simpl in Hfresh. rewrite Hfresh. reflexivity.
      + rewrite b_cat_with_cat. apply (validate_frame S (b_cat b) all); [intro x; split; reflexivity | intro x; reflexivity|].
        exists (set_pathvars (b_cat b) all). split; [exact V | reflexivity].
  Qed.

  (* C20 (a), TYPE *)
  Theorem type_appended_lemma first rest t c' :
    tree_kids t = [] -> dk t = KType -> kind_in KType banned = false ->
    let d := tree_dir t in let n := named d (bs "Name") in
    (build ((first :: rest) ++ [t]) = COk c' <->
     exists c nt, build (first :: rest) = COk c /\ n <> [] /\ ~ In n (map fst (c_types c)) /\
       norm_notation (named d (bs "SchemaNotation")) = Some nt /\
       ((beq nt (bs "jsight") || beq nt (bs "regex")) && (match d_body d with None => true | Some _ => false end)) = false /\
       c' = upd_types c (c_types c ++ [(n, {| ut_annot := d_annot d; ut_notation := nt; ut_schema := schema_of d |})])).
  Proof.
    intros Hl Hk Hb d n.
    assert (Hpl : plain_leaf t) by (unfold plain_leaf; rewrite Hk; repeat split; auto).
    rewrite (build_snoc_leaf _ _ _ first rest t c' Hpl).
    set (S := fun (nt : bytes) (x : catalog) =>
                upd_types x (c_types x ++ [(n, {| ut_annot := d_annot d; ut_notation := nt; ut_schema := schema_of d |})])).
    split.
    - intros [Hj [en [tg [pvs [b [all [b' [St [_ [Hadd V]]]]]]]]]].
      rewrite (add_directive_type _ _ _ _ _ Hk) in Hadd. cbv zeta in Hadd. rewrite Hb in Hadd. unfold kerr in Hadd.
      fold d in Hadd. fold n in Hadd. destruct (beq n []) eqn:En; [discriminate Hadd|].
      destruct (om_has beq (c_types (b_cat b)) n) eqn:Eh; [discriminate Hadd|].
      destruct (norm_notation (named d (bs "SchemaNotation"))) as [nt|] eqn:Ent; [|discriminate Hadd].
      match type of Hadd with (if ?X then _ else _) = _ => destruct X eqn:Eb end; [discriminate Hadd|].
      inversion Hadd; subst b'; clear Hadd. rewrite b_cat_with_cat in V.
      apply (validate_frame (S nt) (b_cat b) all c') in V as [c [V ->]];
        [| intro x; split; reflexivity | intro x; reflexivity].
      exists c, nt. split; [exact (stages_build _ _ _ _ _ _ _ _ Hj St V)|].
      split; [apply beq_false_ne; exact En|]. apply validate_iff in V as [-> _].
      split; [apply (om_has_false beq beq_eq); exact Eh|]. split; [reflexivity|]. split; [exact Eb | reflexivity].
    - intros [c [nt [Hc [Hn [Hfresh [Ent [Eb ->]]]]]]].
      destruct (catalog_keys_lemma _ _ _ _ _ Hc) as [_ [Kt _]].
      apply build_iff in Hc as [Hj [en [tg [pvs [b [all [St V]]]]]]].
      split; [exact Hj|]. pose proof V as V0. apply validate_iff in V0 as [-> _].
      exists en, tg, pvs, b, all, (with_cat b (S nt (b_cat b))). split; [exact St|]. split; [|split].
      + cbn [check_dup_types]. unfold dk in Hk. rewrite Hk. change (kind_eqb KType KType) with true. cbv iota.
        fold d. fold n. apply beq_false_ne in Hn. rewrite Hn.
        destruct (existsb (beq n) (dup_seen (first :: rest) [])) eqn:Ex; [|reflexivity].
        exfalso. apply existsb_exists in Ex as [m [Hm Hnm]]. apply beq_eq in Hnm. subst m.
        apply dup_seen_type_names in Hm as [[]|Hm]. apply Hfresh. rewrite Kt. exact Hm.
      + rewrite (add_directive_type _ _ _ _ _ Hk). cbv zeta. rewrite Hb. fold d. fold n.
        apply beq_false_ne in Hn. rewrite Hn.
        apply (om_has_false beq beq_eq) in Hfresh. simpl in Hfresh. rewrite Hfresh, Ent, Eb. reflexivity.
      + rewrite b_cat_with_cat. apply (validate_frame (S nt) (b_cat b) all); [intro x; split; reflexivity | intro x; reflexivity|].
        exists (set_pathvars (b_cat b) all). split; [exact V | reflexivity].
  Qed.

  (* C20 (a), a childless root-level GET/POST/.. appended at the end (partial: the direction "accepted with
     it => accepted without it, and the catalog is the old one plus the interaction and its automatic tag") *)
  Theorem http_method_appended_partial_lemma first rest t c' :
    tree_kids t = [] -> is_http_method (dk t) = true ->
    build ((first :: rest) ++ [t]) = COk c' ->
    exists c p pv, build (first :: rest) = COk c /\ path_of (tree_dir t) [] = PathOk p /\
      let i := {| i_proto := PHttp; i_method := method_name (dk t); i_path := p |} in
      let n := auto_tag_name p in
      ~ In i (map fst (c_inters c)) /\
      c_inters c' = c_inters c ++ [(i, IHttp {| hi_annot := d_annot (tree_dir t); hi_desc := None; hi_tags := [n]; hi_query := None;
                                                 hi_request := None; hi_responses := []; hi_pathvars := pv |})] /\
      c_tags c' = om_update beq (if om_has beq (c_tags c) n then c_tags c else c_tags c ++ [(n, auto_tag i)]) n
                            (fun tg => tag_add_iid tg i) /\
      c_servers c' = c_servers c /\ c_types c' = c_types c /\ c_enums c' = c_enums c /\
      c_info c' = c_info c /\ c_jsight c' = c_jsight c.
  Proof.
    intros Hl Hm Hb.
    assert (Hpl : plain_leaf t).
    { unfold plain_leaf. unfold dk in *. destruct (d_kind (tree_dir t)); try discriminate Hm; repeat split; auto. }
    apply (build_snoc_leaf _ _ _ first rest t c' Hpl) in Hb as [Hj [en [tg [pvs [b [all [b' [St [_ [Hadd V]]]]]]]]]].
    assert (Hu : used_tags_directive t [] = None).
    { unfold used_tags_directive. rewrite Hl. reflexivity. }
    unfold add_directive in Hadd. cbv zeta in Hadd.
    destruct (kind_in (d_kind (tree_dir t)) banned); [discriminate Hadd|].
    unfold dk in *.
    destruct (d_kind (tree_dir t)) eqn:Hk; try discriminate Hm; kcompute_in Hadd; cbv beta iota in Hadd;
      unfold kerr, cbind in Hadd; walk Hadd; inversion Hadd; subst b'; clear Hadd; rewrite b_cat_with_cat in V;
      match goal with Hc : check_path _ _ _ = COk ?a |- _ => pose proof (check_path_cat _ _ _ _ Hc) as Hcat end;
      rewrite Hcat in *;
      match goal with Ht : tags_for _ _ _ _ = COk ?r |- _ => rewrite tags_for_unfold, Hu in Ht; cbv zeta in Ht; inversion Ht; subst r; clear Ht end;
      apply validate_iff in V as [-> [Vi [Vq Vr]]];
      exists (set_pathvars (b_cat b) all), p, (path_vars_of all p);
      (split; [apply (stages_build _ _ _ _ _ _ _ _ Hj St); apply validate_iff;
               (split; [reflexivity|]); (split; [exact Vi|]);
               unfold set_pathvars in Vq, Vr; simpl in Vq, Vr; rewrite map_app in Vq, Vr;
               (split; [exact (first_bad_request_app _ _ Vq) | exact (first_bad_response_app _ _ Vr)]) |]);
      (split; [reflexivity|]); cbv zeta;
      (split; [ assert (K : map fst (c_inters (set_pathvars (b_cat b) all)) = map fst (c_inters (b_cat b)))
                  by (rewrite <- !aview_keys, aview_set_pathvars; reflexivity);
                rewrite K; apply (om_has_false iid_eqb iid_eqb_eq); assumption |]);
      (split; [unfold set_pathvars; simpl; rewrite map_app; reflexivity|]);
      repeat split; reflexivity.
  Qed.
End Appended.

(* C20 (a), TAG (partial): the declared-tag collection the fold starts from *)
Lemma tag_appended_partial_lemma ts t tg' :
  dk t = KTAG ->
  (collect_tags (ts ++ [t]) [] = COk tg' <->
   exists tg, collect_tags ts [] = COk tg /\ named (tree_dir t) (bs "TagName") <> [] /\
              ~ In (named (tree_dir t) (bs "TagName")) (map fst tg) /\ tg' = tg ++ [tag_entry t]).
Proof.
  unfold dk. intro Hk. rewrite collect_tags_app. split.
  - intro H. destruct (collect_tags ts []) as [tg| | |]; unfold cbind in H; try discriminate H.
    cbn [collect_tags] in H. rewrite Hk in H. change (kind_eqb KTAG KTAG) with true in H. cbv iota in H. unfold kerr in H.
    destruct (beq (named (tree_dir t) (bs "TagName")) []) eqn:En; [discriminate H|].
    destruct (om_has beq tg (named (tree_dir t) (bs "TagName"))) eqn:Eh; [discriminate H|].
    inversion H. exists tg. split; [reflexivity|]. split; [apply beq_false_ne; exact En|].
    split; [apply (om_has_false beq beq_eq); exact Eh | reflexivity].
  - intros [tg [A [B [C ->]]]]. rewrite A. unfold cbind. cbn [collect_tags]. rewrite Hk. change (kind_eqb KTAG KTAG) with true. cbv iota.
    apply beq_false_ne in B. rewrite B. apply (om_has_false beq beq_eq) in C. rewrite C. reflexivity.
Qed.
