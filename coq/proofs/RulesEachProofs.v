(* C16: Each of catalog.Rules with a callback that returns an error, for every state of the pair and every callback *)
From Coq Require Import List NArith Bool Lia String.
From JV.lib Require Import Bytes.
From JV.model Require Import OrderedMap RulesBuilder.
From JV.proofs Require Import OrderedMapProofs OrderedMapEachProofs RulesBuilderProofs.
Import ListNotations.

Section RulesEach.
  Variable K V : Type.
  Variable keq : K -> K -> bool.

  Local Notation rule := (rule K V).
  Local Notation each := (rs_each K V).

  Lemma rules_each_until_spec_lemma (stop : K -> rule -> bool) (s : rstate K V) :
    let r := rs_each_until K V stop s in
    (exists rest, each s = fst r ++ rest) /\
    snd r = existsb (stops K rule stop) (each s) /\
    (snd r = true -> exists pre kv, fst r = pre ++ [kv] /\ stops K rule stop kv = true /\
                                    forallb (fun x => negb (stops K rule stop x)) pre = true) /\
    (snd r = false -> fst r = each s).
  Proof.
    unfold rs_each_until. pose proof (until_loop_spec K rule stop (each s)) as H.
    pose proof (until_stopped_iff K rule stop (each s)) as Hs.
    destruct (until_loop K rule stop (each s)) as [vis st]. cbn [fst snd] in *.
    destruct H as [Hp [Ht Hf]]. split; [exact Hp|]. split; [exact Hs|]. split; [exact Ht|].
    intros Hst. exact (proj1 (Hf Hst)).
  Qed.

  Lemma rules_each_never_fails_lemma (s : rstate K V) :
    rs_each_until K V (fun _ _ => false) s = (each s, false).
  Proof. unfold rs_each_until. apply until_never. Qed.

  (* after any history of writers: the callback sees the calls made so far, oldest first, each under the key it was
     stored with, up to the first call it fails at *)
  Lemma rules_each_until_history_lemma (ops : list (wop K V)) (stop : K -> rule -> bool) :
    let r := rs_each_until K V stop (rb_run K V keq ops) in
    exists rest, map (fun e => (@rkey K V e, e)) (map (entry_of K V) ops) = fst r ++ rest.
  Proof.
    cbv zeta. destruct (rules_each_until_spec_lemma stop (rb_run K V keq ops)) as [[rest Hrest] _].
    exists rest. rewrite <- Hrest. unfold rs_each. rewrite run_data_lemma. reflexivity.
  Qed.
End RulesEach.

Example ex_rules_each_until :
  let s := rb_run bytes bytes beq [WSet (bk "a") {| rkey := bk "x"; rval := bk "1" |};
                                   WAppend {| rkey := bk "b"; rval := bk "2" |};
                                   WSet (bk "a") {| rkey := bk "y"; rval := bk "3" |}] in
  map (fun kr => (fst kr, @rval _ _ (snd kr))) (fst (rs_each_until _ _ (fun k _ => beq k (bk "b")) s))
    = [(bk "a", bk "1"); (bk "b", bk "2")] /\
  snd (rs_each_until _ _ (fun k _ => beq k (bk "b")) s) = true /\
  snd (rs_each_until _ _ (fun k _ => beq k (bk "zz")) s) = false.
Proof. vm_compute. repeat split; reflexivity. Qed.
