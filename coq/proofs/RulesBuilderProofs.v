(* C16, second sentence, for the hand-written pair catalog.RulesBuilder / catalog.Rules
   (model/RulesBuilder.v).  Set and Append hold the builder's write lock for their whole body
   (rules_locks_ok below, on the facts regenerated from rules_builder.go), so a concurrent history of
   writers is a SEQUENCE of atomic steps: every statement here is about all sequences [ops], all schedules
   (lists of (goroutine, call)) and all interleavings of per-goroutine call lists. *)
From Coq Require Import String.
From Coq Require Import List NArith Bool Lia Arith Permutation.
From JV.lib Require Import Bytes.
From JV.gen Require Import RulesFacts.
From JV.model Require Import RulesBuilder RulesLocks.
Import ListNotations.
Local Open Scope nat_scope.

(* ------------------------------------------------------------------------------------------ *)
(* lock discipline, on the regenerated facts *)

Lemma rules_locks_ok_lemma : rules_locks_check = true.
Proof. vm_compute. reflexivity. Qed.

Lemma rules_ops_ok_lemma : rules_ops_check = true.
Proof. vm_compute. reflexivity. Qed.

Lemma rules_readers_unlocked_lemma : rules_readers_unlocked = true.
Proof. vm_compute. reflexivity. Qed.

(* the checker does reject what it is meant to reject *)
Definition demo_methods (set_lock : rules_lock) (set_calls : list string) : list rules_method :=
  [ {| rm_type := "RulesBuilder"; rm_name := "Set"; rm_file := "rules_builder.go"; rm_op := RoSet;
       rm_lock := set_lock; rm_calls := set_calls |} ].
Example rules_locks_accepts : rules_locks_check_of true (demo_methods RlWrite []) [] = true.
Proof. reflexivity. Qed.
Example rules_locks_rejects_unlocked_writer : rules_locks_check_of true (demo_methods RlNone []) [] = false.
Proof. reflexivity. Qed.
Example rules_locks_rejects_rlock_writer : rules_locks_check_of true (demo_methods RlRead []) [] = false.
Proof. reflexivity. Qed.
Example rules_locks_rejects_reentrant_call : rules_locks_check_of true (demo_methods RlWrite ["Append"%string]) [] = false.
Proof. reflexivity. Qed.
Example rules_locks_rejects_missing_mutex : rules_locks_check_of false (demo_methods RlWrite []) [] = false.
Proof. reflexivity. Qed.
Example rules_locks_rejects_outside_write :
  rules_locks_check_of true (demo_methods RlWrite []) [("schema.go", "Rules", "data", true)%string] = false.
Proof. reflexivity. Qed.

(* ------------------------------------------------------------------------------------------ *)
(* interleavings, generic in the element type *)

Section Interleave.
  Context {A : Type}.

  Definition gproj (t : nat) (sc : list (nat * A)) : list A :=
    map snd (filter (fun x => Nat.eqb (fst x) t) sc).

  Lemma concat_all_nil (ths : list (list A)) : (forall th, In th ths -> th = []) -> concat ths = [].
  Proof.
    induction ths as [|th ths IH]; intros Hall; simpl; [reflexivity|].
    rewrite (Hall th (or_introl eq_refl)). simpl. apply IH. intros x Hx. apply Hall. right. assumption.
  Qed.

  Lemma interleaves_perm ths (l : list A) : interleaves ths l -> Permutation (concat ths) l.
  Proof.
    intros Hil. induction Hil as [ths Hall|pre o tl post l Hil IH].
    - rewrite (concat_all_nil _ Hall). constructor.
    - rewrite concat_app in *. simpl in *. apply Permutation_sym, Permutation_cons_app, Permutation_sym. exact IH.
  Qed.

  Lemma interleaves_length ths (l : list A) : interleaves ths l -> List.length l = List.length (concat ths).
  Proof. intros Hil. symmetry. apply Permutation_length, interleaves_perm. assumption. Qed.

  Lemma interleaves_in ths (l : list A) x :
    interleaves ths l -> (In x l <-> exists th, In th ths /\ In x th).
  Proof.
    intros Hil. pose proof (interleaves_perm _ _ Hil) as Hp. split.
    - intros Hin. apply (Permutation_in _ (Permutation_sym Hp)) in Hin. apply in_concat in Hin.
      destruct Hin as (th & Hth & Hx). exists th. split; assumption.
    - intros (th & Hth & Hx). apply (Permutation_in _ Hp). apply in_concat. exists th. split; assumption.
  Qed.

  Lemma interleaves_filter (p : A -> bool) ths (l : list A) :
    interleaves ths l -> interleaves (map (filter p) ths) (filter p l).
  Proof.
    intros Hil. induction Hil as [ths Hall|pre o tl post l Hil IH].
    - simpl. constructor. intros th Hin. apply in_map_iff in Hin. destruct Hin as (th0 & <- & Hin0).
      rewrite (Hall _ Hin0). reflexivity.
    - rewrite map_app in *. simpl in *. destruct (p o).
      + constructor. exact IH.
      + exact IH.
  Qed.

  Lemma nth_app_other (pre post : list (list A)) x y t :
    t <> List.length pre -> nth t (pre ++ x :: post) [] = nth t (pre ++ y :: post) [].
  Proof.
    intros Hne. destruct (lt_dec t (List.length pre)) as [Hlt|Hge].
    - rewrite !app_nth1 by assumption. reflexivity.
    - rewrite !app_nth2 by lia. destruct (t - List.length pre) as [|m] eqn:E; [lia|]. reflexivity.
  Qed.

  (* an interleaving is the call sequence of a schedule whose per-goroutine projections are the lists *)
  Lemma interleaves_sched ths (l : list A) :
    interleaves ths l -> exists sc : list (nat * A), map snd sc = l /\ forall t, gproj t sc = nth t ths [].
  Proof.
    intros Hil. induction Hil as [ths Hall|pre o tl post l Hil IH].
    - exists []. split; [reflexivity|]. intros t. unfold gproj. simpl.
      destruct (nth_in_or_default t ths []) as [Hin|Hd]; [symmetry; apply Hall; assumption|symmetry; assumption].
    - destruct IH as (sc & Hsc & Hproj). exists ((List.length pre, o) :: sc). split.
      + simpl. rewrite Hsc. reflexivity.
      + intros t. unfold gproj in *. simpl. destruct (Nat.eqb (List.length pre) t) eqn:E.
        * apply Nat.eqb_eq in E. subst t. simpl. rewrite Hproj. rewrite !nth_middle. reflexivity.
        * apply Nat.eqb_neq in E. rewrite Hproj. apply nth_app_other. intros ->. apply E. reflexivity.
  Qed.

  Lemma gproj_cons_same t o (sc : list (nat * A)) : gproj t ((t, o) :: sc) = o :: gproj t sc.
  Proof. unfold gproj. simpl. rewrite Nat.eqb_refl. reflexivity. Qed.

  Lemma gproj_cons_other t t' o (sc : list (nat * A)) : t' <> t -> gproj t ((t', o) :: sc) = gproj t sc.
  Proof. intros Hne. unfold gproj. simpl. apply Nat.eqb_neq in Hne. rewrite Hne. reflexivity. Qed.

  (* and conversely: a schedule of goroutines 0..n-1 is an interleaving of its projections *)
  Lemma sched_interleaves n (sc : list (nat * A)) :
    (forall x, In x sc -> fst x < n) ->
    interleaves (map (fun t => gproj t sc) (seq 0 n)) (map snd sc).
  Proof.
    induction sc as [|[t o] sc IH]; intros Hb.
    - simpl. constructor. intros th Hin. apply in_map_iff in Hin. destruct Hin as (t & <- & _). reflexivity.
    - assert (Ht : t < n) by (apply (Hb (t, o)); left; reflexivity).
      assert (Hb' : forall x, In x sc -> fst x < n) by (intros x Hx; apply Hb; right; assumption).
      specialize (IH Hb').
      assert (Hn : n = t + S (n - S t)) by lia.
      rewrite Hn in IH |- *. rewrite seq_app in IH |- *. simpl seq in IH |- *.
      rewrite map_app in IH |- *. simpl map in IH |- *.
      rewrite gproj_cons_same.
      assert (Hpre : map (fun t0 => gproj t0 ((t, o) :: sc)) (seq 0 t) = map (fun t0 => gproj t0 sc) (seq 0 t)).
      { apply map_ext_in. intros a Ha. apply in_seq in Ha. apply gproj_cons_other. lia. }
      assert (Hpost : map (fun t0 => gproj t0 ((t, o) :: sc)) (seq (S t) (n - S t))
                      = map (fun t0 => gproj t0 sc) (seq (S t) (n - S t))).
      { apply map_ext_in. intros a Ha. apply in_seq in Ha. apply gproj_cons_other. lia. }
      rewrite Hpre, Hpost. constructor. exact IH.
  Qed.

  Lemma in_gproj t o (sc : list (nat * A)) : In o (gproj t sc) <-> In (t, o) sc.
  Proof.
    unfold gproj. rewrite in_map_iff. split.
    - intros ([t' o'] & Ho & Hin). simpl in Ho. subst o'. apply filter_In in Hin. destruct Hin as (Hin & E).
      simpl in E. apply Nat.eqb_eq in E. subst t'. assumption.
    - intros Hin. exists (t, o). split; [reflexivity|]. apply filter_In. split; [assumption|]. simpl. apply Nat.eqb_refl.
  Qed.

  Lemma NoDup_app_intro (a b : list A) :
    NoDup a -> NoDup b -> (forall x, In x a -> ~ In x b) -> NoDup (a ++ b).
  Proof.
    induction a as [|x a IH]; simpl; intros Ha Hb Hd; [assumption|].
    inversion Ha as [|? ? Hx Ha']; subst. constructor.
    - intros Hin. apply in_app_or in Hin. destruct Hin as [Hin|Hin]; [contradiction|].
      apply (Hd x); [left; reflexivity|assumption].
    - apply IH; [assumption|assumption|]. intros y Hy. apply Hd. right. assumption.
  Qed.

  Lemma NoDup_concat (ls : list (list A)) :
    (forall l, In l ls -> NoDup l) ->
    (forall i j x, In x (nth i ls []) -> In x (nth j ls []) -> i = j) ->
    NoDup (concat ls).
  Proof.
    induction ls as [|a ls IH]; intros Hnd Hdis; simpl; [constructor|].
    apply NoDup_app_intro.
    - apply Hnd. left. reflexivity.
    - apply IH.
      + intros l Hl. apply Hnd. right. assumption.
      + intros i j x Hi Hj. assert (E : S i = S j) by (apply (Hdis (S i) (S j) x); assumption). lia.
    - intros x Hxa Hxc. apply in_concat in Hxc. destruct Hxc as (l & Hl & Hxl).
      destruct (In_nth ls l [] Hl) as (j & Hj & Hnth).
      assert (E : 0 = S j) by (apply (Hdis 0 (S j) x); simpl; [assumption|rewrite Hnth; assumption]).
      discriminate.
  Qed.
End Interleave.

Lemma interleaves_map {A B : Type} (f : A -> B) ths (l : list A) :
  interleaves ths l -> interleaves (map (map f) ths) (map f l).
Proof.
  intros Hil. induction Hil as [ths Hall|pre o tl post l Hil IH].
  - simpl. constructor. intros th Hin. apply in_map_iff in Hin. destruct Hin as (th0 & <- & Hin0).
    rewrite (Hall _ Hin0). reflexivity.
  - rewrite map_app in *. simpl in *. constructor. exact IH.
Qed.

(* ------------------------------------------------------------------------------------------ *)

Section Proofs.
  Variable K V : Type.
  Variable keq : K -> K -> bool.
  Hypothesis keq_spec : forall a b, keq a b = true <-> a = b.

  Local Notation rule := (rule K V).
  Local Notation rstate := (rstate K V).
  Local Notation wop := (wop K V).
  Local Notation iget := (idx_get K keq).
  Local Notation iset := (idx_set K keq).
  Local Notation step := (rb_step K V keq).
  Local Notation run := (rb_run K V keq).
  Local Notation run_from := (rb_run_from K V keq).
  Local Notation run_sched := (rb_run_sched K V keq).
  Local Notation get := (rs_get K V keq).
  Local Notation has := (rs_has K V keq).
  Local Notation len := (rs_len K V).
  Local Notation indexed := (rs_indexed K V keq).
  Local Notation entry := (entry_of K V).
  Local Notation skeys := (rb_set_keys K V).
  Local Notation lpos := (last_set_pos K V keq).
  Local Notation lset := (last_set K V keq).
  Local Notation setsk := (sets_key K V keq).
  Local Notation rb_inv := (rb_inv K V keq).
  Local Notation mkrule := (fun (k : K) (v : V) => {| rkey := k; rval := v |}).

  Lemma rkeq_refl (a : K) : keq a a = true.
  Proof. apply keq_spec. reflexivity. Qed.

  Lemma rkeq_neq (a b : K) : a <> b -> keq a b = false.
  Proof. intros H. destruct (keq a b) eqn:E; [|reflexivity]. apply keq_spec in E. contradiction. Qed.

  Lemma rkeq_false (a b : K) : keq a b = false -> a <> b.
  Proof. intros H E. subst b. rewrite rkeq_refl in H. discriminate. Qed.

  (* ---- the index as a finite map ---- *)

  Lemma iget_iset_eq k i ix : iget k (iset k i ix) = Some i.
  Proof.
    induction ix as [|[k' i'] r IH]; simpl.
    - rewrite rkeq_refl. reflexivity.
    - destruct (keq k' k) eqn:E; simpl; rewrite E; [reflexivity|assumption].
  Qed.

  Lemma iget_iset_neq k k' i ix : k <> k' -> iget k' (iset k i ix) = iget k' ix.
  Proof.
    intros Hne. induction ix as [|[k0 i0] r IH]; simpl.
    - rewrite (rkeq_neq _ _ Hne). reflexivity.
    - destruct (keq k0 k) eqn:E; simpl.
      + apply keq_spec in E. subst k0. rewrite (rkeq_neq _ _ Hne). reflexivity.
      + destruct (keq k0 k'); [reflexivity|assumption].
  Qed.

  Lemma length_snoc {A} (l : list A) (x : A) : List.length (l ++ [x]) = S (List.length l).
  Proof. rewrite app_length. simpl. lia. Qed.

  (* ---- one step ---- *)

  Lemma step_data s o : rdata (step s o) = rdata s ++ [entry o].
  Proof. destruct o; reflexivity. Qed.

  Lemma step_index s o k :
    iget k (rindex (step s o)) = if setsk k o then Some (List.length (rdata s)) else iget k (rindex s).
  Proof.
    destruct o as [k' r|r]; simpl; [|reflexivity].
    destruct (keq k' k) eqn:E.
    - apply keq_spec in E. subst k'. apply iget_iset_eq.
    - apply iget_iset_neq. apply rkeq_false. assumption.
  Qed.

  (* ---- closed forms: the state IS the history ---- *)

  Lemma run_from_cons s o ops : run_from s (o :: ops) = run_from (step s o) ops.
  Proof. reflexivity. Qed.

  Lemma run_from_data ops : forall s, rdata (run_from s ops) = rdata s ++ map entry ops.
  Proof.
    induction ops as [|o ops IH]; intros s.
    - simpl. rewrite app_nil_r. reflexivity.
    - rewrite run_from_cons, IH, step_data, <- app_assoc. reflexivity.
  Qed.

  Lemma run_from_index ops k : forall s,
    iget k (rindex (run_from s ops)) =
    match lpos k (List.length (rdata s)) ops with
    | Some p => Some p
    | None => iget k (rindex s)
    end.
  Proof.
    induction ops as [|o ops IH]; intros s; [reflexivity|].
    rewrite run_from_cons, IH, step_data, length_snoc. simpl.
    destruct (lpos k (S (List.length (rdata s))) ops) as [p|]; [reflexivity|].
    rewrite step_index. destruct (setsk k o); reflexivity.
  Qed.

  Lemma run_data_lemma ops : rdata (run ops) = map entry ops.
  Proof. unfold rb_run. rewrite run_from_data. reflexivity. Qed.

  Lemma run_index_lemma ops k : iget k (rindex (run ops)) = lpos k 0 ops.
  Proof. unfold rb_run. rewrite run_from_index. simpl. destruct (lpos k 0 ops); reflexivity. Qed.

  Lemma run_app ops1 ops2 : run (ops1 ++ ops2) = run_from (run ops1) ops2.
  Proof. unfold rb_run, rb_run_from. apply fold_left_app. Qed.

  (* ---- facts about the history projections ---- *)

  Lemma lpos_bound k ops : forall base p, lpos k base ops = Some p -> base <= p.
  Proof.
    induction ops as [|o ops IH]; intros base p; simpl; [discriminate|].
    destruct (lpos k (S base) ops) as [q|] eqn:E.
    - intros H. injection H as <-. apply IH in E. lia.
    - destruct (setsk k o); intros H; [injection H as <-; lia|discriminate].
  Qed.

  (* the position found is that of a Set of k, and it carries the value last_set reports *)
  Lemma lpos_spec k ops : forall base,
    match lpos k base ops with
    | Some p => exists x, nth_error ops (p - base) = Some (WSet k x) /\ lset k ops = Some (rval x) /\ base <= p
    | None => lset k ops = None
    end.
  Proof.
    induction ops as [|o ops IH]; intros base; simpl; [reflexivity|].
    specialize (IH (S base)).
    destruct (lpos k (S base) ops) as [p|] eqn:E.
    - destruct IH as (x & Hn & Hl & Hb). exists x. rewrite Hl.
      replace (p - base) with (S (p - S base)) by lia. simpl. repeat split; try assumption. lia.
    - rewrite IH. destruct o as [k' x|r]; simpl; [|reflexivity].
      destruct (keq k' k) eqn:Ek; [|reflexivity].
      apply keq_spec in Ek. subst k'. exists x. rewrite Nat.sub_diag. simpl. repeat split. lia.
  Qed.

  Lemma in_set_keys k ops : In k (skeys ops) <-> exists r, In (WSet k r) ops.
  Proof.
    induction ops as [|o ops IH]; simpl.
    - split; [intros []|intros (r & [])].
    - destruct o as [k' x|x]; simpl.
      + rewrite IH. split.
        * intros [->|(r & Hr)]; [exists x; left; reflexivity|exists r; right; assumption].
        * intros (r & [E|Hr]); [left; congruence|right; exists r; assumption].
      + rewrite IH. split.
        * intros (r & Hr). exists r. right. assumption.
        * intros (r & [E|Hr]); [discriminate|exists r; assumption].
  Qed.

  Lemma lpos_some_iff k ops : forall base, (exists p, lpos k base ops = Some p) <-> In k (skeys ops).
  Proof.
    induction ops as [|o ops IH]; intros base; simpl.
    - split; [intros (p & H); discriminate|intros []].
    - specialize (IH (S base)). destruct (lpos k (S base) ops) as [q|] eqn:E.
      + assert (Hin : In k (skeys ops)) by (apply IH; exists q; reflexivity).
        split; [|intros _; exists q; reflexivity].
        intros _. destruct o; simpl; [right|]; assumption.
      + assert (Hni : ~ In k (skeys ops)) by (intros Hin; apply IH in Hin; destruct Hin as (p & Hp); discriminate).
        destruct o as [k' x|x]; simpl.
        * destruct (keq k' k) eqn:Ek.
          -- apply keq_spec in Ek. subst k'. split; [intros _; left; reflexivity|intros _; exists base; reflexivity].
          -- split; [intros (p & H); discriminate|].
             intros [->|Hin]; [rewrite rkeq_refl in Ek; discriminate|contradiction].
        * split; [intros (p & H); discriminate|intros Hin; contradiction].
  Qed.

  Lemma lpos_none_iff k ops base : lpos k base ops = None <-> ~ In k (skeys ops).
  Proof.
    rewrite <- (lpos_some_iff k ops base). destruct (lpos k base ops) as [p|].
    - split; [discriminate|]. intros H. exfalso. apply H. exists p. reflexivity.
    - split; [|reflexivity]. intros _ (p & H). discriminate.
  Qed.

  (* a Set at position p is covered by an index entry at or after p *)
  Lemma lpos_covers k ops : forall base p x,
    nth_error ops p = Some (WSet k x) -> exists j, lpos k base ops = Some j /\ base + p <= j.
  Proof.
    induction ops as [|o ops IH]; intros base p x Hn; [destruct p; discriminate|].
    destruct p as [|p]; simpl in Hn |- *.
    - injection Hn as ->. destruct (lpos k (S base) ops) as [q|] eqn:E.
      + exists q. split; [reflexivity|]. apply lpos_bound in E. lia.
      + simpl. rewrite rkeq_refl. exists base. split; [reflexivity|lia].
    - destruct (IH (S base) p x Hn) as (j & Hj & Hb). rewrite Hj. exists j. split; [reflexivity|lia].
  Qed.

  (* with every key Set once, the index entry of a Set is its own position *)
  Lemma lpos_own_position k ops : forall base p x,
    NoDup (skeys ops) -> nth_error ops p = Some (WSet k x) -> lpos k base ops = Some (base + p).
  Proof.
    induction ops as [|o ops IH]; intros base p x Hnd Hn; [destruct p; discriminate|].
    destruct p as [|p]; simpl in Hn |- *.
    - injection Hn as ->. simpl in Hnd. inversion Hnd as [|? ? Hni Hnd']; subst.
      apply (lpos_none_iff k ops (S base)) in Hni. rewrite Hni. simpl. rewrite rkeq_refl.
      f_equal. lia.
    - assert (Hnd' : NoDup (skeys ops)).
      { destruct o; simpl in Hnd; [inversion Hnd; assumption|assumption]. }
      rewrite (IH (S base) p x Hnd' Hn). f_equal. lia.
  Qed.

  (* ---- the invariant: the index is sound for data ---- *)

  Lemma inv_new : rb_inv rb_new.
  Proof. intros k i H. simpl in H. discriminate. Qed.

  Lemma inv_step s o : rb_inv s -> rb_inv (step s o).
  Proof.
    intros Hinv k i. rewrite step_index, step_data, length_snoc.
    destruct (setsk k o) eqn:Es.
    - intros H. injection H as <-. split; [lia|].
      exists (entry o). split.
      + rewrite nth_error_app2 by lia. rewrite Nat.sub_diag. reflexivity.
      + destruct o as [k' x|x]; simpl in Es |- *; [apply keq_spec; assumption|discriminate].
    - intros H. destruct (Hinv k i H) as (Hlt & r & Hn & Hk). split; [lia|].
      exists r. split; [|assumption]. rewrite nth_error_app1 by assumption. assumption.
  Qed.

  Lemma inv_run_from ops : forall s, rb_inv s -> rb_inv (run_from s ops).
  Proof.
    induction ops as [|o ops IH]; intros s Hs; [assumption|].
    rewrite run_from_cons. apply IH, inv_step, Hs.
  Qed.

  Lemma inv_run_lemma ops : rb_inv (run ops).
  Proof. apply inv_run_from, inv_new. Qed.

  Lemma get_no_panic s k : rb_inv s -> exists o, get s k = GOk o.
  Proof.
    intros Hinv. unfold rs_get. destruct (iget k (rindex s)) as [i|] eqn:E; [|exists None; reflexivity].
    destruct (Hinv k i E) as (_ & r & Hn & _). rewrite Hn. exists (Some r). reflexivity.
  Qed.

  Lemma get_returns_its_key s k r : rb_inv s -> get s k = GOk (Some r) -> rkey r = k.
  Proof.
    intros Hinv. unfold rs_get. destruct (iget k (rindex s)) as [i|] eqn:E; [|discriminate].
    destruct (Hinv k i E) as (_ & r' & Hn & Hk). rewrite Hn. intros H. injection H as <-. assumption.
  Qed.

  (* ---- no update is lost ---- *)

  Lemma get_last_set_lemma ops k : get (run ops) k = GOk (option_map (mkrule k) (lset k ops)).
  Proof.
    unfold rs_get. rewrite run_index_lemma, run_data_lemma.
    pose proof (lpos_spec k ops 0) as Hs. destruct (lpos k 0 ops) as [p|].
    - destruct Hs as (x & Hn & Hl & _). rewrite Nat.sub_0_r in Hn. rewrite Hl.
      rewrite nth_error_map, Hn. reflexivity.
    - rewrite Hs. reflexivity.
  Qed.

  Lemma lset_app_set ops k x : lset k (ops ++ [WSet k x]) = Some (rval x).
  Proof.
    induction ops as [|o ops IH]; simpl.
    - rewrite rkeq_refl. reflexivity.
    - rewrite IH. reflexivity.
  Qed.

  Lemma rb_last_set_wins_lemma ops k x : get (run (ops ++ [WSet k x])) k = GOk (Some (mkrule k (rval x))).
  Proof. rewrite get_last_set_lemma, lset_app_set. reflexivity. Qed.

  Lemma has_iff_set_lemma ops k : has (run ops) k = true <-> In k (skeys ops).
  Proof.
    unfold rs_has. rewrite run_index_lemma. rewrite <- (lpos_some_iff k ops 0).
    destruct (lpos k 0 ops) as [p|].
    - split; [intros _; exists p; reflexivity|reflexivity].
    - split; [discriminate|intros (p & H); discriminate].
  Qed.

  Lemma len_counts_calls_lemma ops : len (run ops) = List.length ops.
  Proof. unfold rs_len. rewrite run_data_lemma. apply map_length. Qed.

  (* every call left exactly one rule, at its own position *)
  Lemma every_call_stored_lemma ops p o :
    nth_error ops p = Some o -> nth_error (rdata (run ops)) p = Some (entry o).
  Proof. intros H. rewrite run_data_lemma, nth_error_map, H. reflexivity. Qed.

  (* every Set is reachable through the index: at its own position or at a later Set of the same key *)
  Lemma every_set_indexed_lemma ops p k x :
    nth_error ops p = Some (WSet k x) ->
    exists j y, iget k (rindex (run ops)) = Some j /\ p <= j /\ nth_error ops j = Some (WSet k y) /\
                get (run ops) k = GOk (Some (mkrule k (rval y))).
  Proof.
    intros Hn. destruct (lpos_covers k ops 0 p x Hn) as (j & Hj & Hb).
    pose proof (lpos_spec k ops 0) as Hs. rewrite Hj in Hs. destruct Hs as (y & Hy & Hl & _).
    rewrite Nat.sub_0_r in Hy. exists j, y. rewrite run_index_lemma, get_last_set_lemma, Hl.
    repeat split; try assumption; try lia.
  Qed.

  (* ---- every key once ---- *)

  Lemma in_indexed_from ix d : forall i r,
    In r (indexed_from K V keq ix i d) -> exists j, iget (rkey r) ix = Some j /\ i <= j.
  Proof.
    induction d as [|e d IH]; intros i r; simpl; [intros []|].
    destruct (iget (rkey e) ix) as [j|] eqn:E.
    - destruct (Nat.eqb j i) eqn:Ej.
      + apply Nat.eqb_eq in Ej. subst j. intros [<-|Hin].
        * exists i. split; [assumption|lia].
        * destruct (IH _ _ Hin) as (j & Hj & Hb). exists j. split; [assumption|lia].
      + intros Hin. destruct (IH _ _ Hin) as (j' & Hj & Hb). exists j'. split; [assumption|lia].
    - intros Hin. destruct (IH _ _ Hin) as (j' & Hj & Hb). exists j'. split; [assumption|lia].
  Qed.

  Lemma indexed_from_nodup ix d : forall i, NoDup (map rkey (indexed_from K V keq ix i d)).
  Proof.
    induction d as [|e d IH]; intros i; simpl; [constructor|].
    destruct (iget (rkey e) ix) as [j|] eqn:E; [|apply IH].
    destruct (Nat.eqb j i) eqn:Ej; [|apply IH].
    apply Nat.eqb_eq in Ej. subst j. simpl. constructor; [|apply IH].
    intros Hin. apply in_map_iff in Hin. destruct Hin as (r & Hk & Hin).
    destruct (in_indexed_from _ _ _ _ Hin) as (j & Hj & Hb). rewrite Hk, E in Hj. injection Hj as <-. lia.
  Qed.

  Lemma indexed_keys_nodup_lemma s : NoDup (map rkey (indexed s)).
  Proof. apply indexed_from_nodup. Qed.

  Lemma indexed_from_sets ix ops : forall base,
    (forall p k x, nth_error ops p = Some (WSet k x) -> iget k ix = Some (base + p)) ->
    (forall p r, nth_error ops p = Some (WAppend r) -> iget (rkey r) ix <> Some (base + p)) ->
    indexed_from K V keq ix base (map entry ops) = map entry (filter (is_set K V) ops).
  Proof.
    induction ops as [|o ops IH]; intros base H1 H2; simpl; [reflexivity|].
    assert (IH' : indexed_from K V keq ix (S base) (map entry ops) = map entry (filter (is_set K V) ops)).
    { apply IH.
      - intros p k x Hn. replace (S base + p) with (base + S p) by lia. apply (H1 (S p) k x). assumption.
      - intros p r Hn. replace (S base + p) with (base + S p) by lia. apply (H2 (S p) r). assumption. }
    destruct o as [k x|r]; simpl.
    - rewrite (H1 0 k x eq_refl). rewrite Nat.add_0_r, Nat.eqb_refl, IH'. reflexivity.
    - destruct (iget (rkey r) ix) as [j|] eqn:E; [|assumption].
      destruct (Nat.eqb j base) eqn:Ej; [|assumption].
      apply Nat.eqb_eq in Ej. subst j. exfalso. apply (H2 0 r eq_refl). rewrite Nat.add_0_r. assumption.
  Qed.

  Lemma keys_of_set_entries ops : map rkey (map entry (filter (is_set K V) ops)) = skeys ops.
  Proof.
    induction ops as [|o ops IH]; simpl; [reflexivity|].
    destruct o; simpl; [rewrite IH; reflexivity|assumption].
  Qed.

  (* with every key Set once: the rules Get can reach are exactly the rules the Set calls left, in call order *)
  Lemma indexed_when_keys_once_lemma ops :
    NoDup (skeys ops) -> indexed (run ops) = map entry (filter (is_set K V) ops).
  Proof.
    intros Hnd. unfold rs_indexed. rewrite run_data_lemma. apply indexed_from_sets.
    - intros p k x Hn. rewrite run_index_lemma. apply (lpos_own_position k ops 0 p x Hnd Hn).
    - intros p r Hn. rewrite run_index_lemma. simpl. intros Hl.
      pose proof (lpos_spec (rkey r) ops 0) as Hs. rewrite Hl in Hs. destruct Hs as (x & Hx & _).
      rewrite Nat.sub_0_r, Hn in Hx. discriminate.
  Qed.

  Lemma rb_first_insertion_order_lemma ops :
    NoDup (skeys ops) -> map rkey (indexed (run ops)) = skeys ops.
  Proof. intros Hnd. rewrite indexed_when_keys_once_lemma by assumption. apply keys_of_set_entries. Qed.

  (* ---- schedules and interleavings ---- *)

  Lemma proj_is_gproj t (sc : rb_sched K V) : rb_proj K V t sc = gproj t sc.
  Proof. reflexivity. Qed.

  Lemma lset_proj k t (sc : rb_sched K V) :
    (forall t' x, In (t', WSet k x) sc -> t' = t) ->
    lset k (rb_sched_ops K V sc) = lset k (rb_proj K V t sc).
  Proof.
    induction sc as [|[t' o] sc IH]; intros Hown; [reflexivity|].
    assert (IH' : lset k (rb_sched_ops K V sc) = lset k (rb_proj K V t sc)).
    { apply IH. intros t0 x Hin. apply (Hown t0 x). right. assumption. }
    unfold rb_sched_ops in *. simpl map. rewrite proj_is_gproj in *.
    destruct (Nat.eq_dec t' t) as [->|Hne].
    - rewrite gproj_cons_same. simpl. rewrite IH'. reflexivity.
    - rewrite gproj_cons_other by assumption. simpl. rewrite IH'.
      destruct (lset k (gproj t sc)) as [v|]; [reflexivity|].
      destruct o as [k' x|x]; [|reflexivity].
      destruct (keq k' k) eqn:E; [|reflexivity].
      apply keq_spec in E. subst k'. exfalso. apply Hne. apply (Hown t' x). left. reflexivity.
  Qed.

  Lemma lset_none_no_setter k ops : (forall x, ~ In (WSet k x) ops) -> lset k ops = None.
  Proof.
    induction ops as [|o ops IH]; intros Hno; simpl; [reflexivity|].
    rewrite IH by (intros x Hin; apply (Hno x); right; assumption).
    destruct o as [k' x|x]; [|reflexivity].
    destruct (keq k' k) eqn:E; [|reflexivity].
    apply keq_spec in E. subst k'. exfalso. apply (Hno x). left. reflexivity.
  Qed.

  Lemma keys_owned_transfer (sc1 sc2 : rb_sched K V) :
    (forall t, rb_proj K V t sc1 = rb_proj K V t sc2) -> keys_owned K V sc1 -> keys_owned K V sc2.
  Proof.
    intros Hp Hown t1 t2 k r1 r2 H1 H2.
    apply (Hown t1 t2 k r1 r2).
    - apply in_gproj. rewrite <- proj_is_gproj, Hp. apply in_gproj. assumption.
    - apply in_gproj. rewrite <- proj_is_gproj, Hp. apply in_gproj. assumption.
  Qed.

  (* per-key value: with owned keys it depends on the owner's program order only *)
  Lemma lset_same_projections (sc1 sc2 : rb_sched K V) k :
    (forall t, rb_proj K V t sc1 = rb_proj K V t sc2) -> keys_owned K V sc1 ->
    lset k (rb_sched_ops K V sc1) = lset k (rb_sched_ops K V sc2).
  Proof.
    intros Hp Hown. pose proof (keys_owned_transfer _ _ Hp Hown) as Hown2.
    destruct (existsb (fun x => setsk k (snd x)) sc1) eqn:E.
    - apply existsb_exists in E. destruct E as ([t o] & Hin & Hs). simpl in Hs.
      destruct o as [k' x|x]; simpl in Hs; [|discriminate]. apply keq_spec in Hs. subst k'.
      rewrite (lset_proj k t sc1), (lset_proj k t sc2), Hp; [reflexivity| |].
      + intros t' y Hy. apply (Hown2 t' t k y x Hy).
        apply in_gproj. rewrite <- proj_is_gproj, <- Hp. apply in_gproj. assumption.
      + intros t' y Hy. apply (Hown t' t k y x Hy Hin).
    - assert (Hno1 : forall t x, ~ In (t, WSet k x) sc1).
      { intros t x Hin. assert (Ht : existsb (fun x => setsk k (snd x)) sc1 = true).
        { apply existsb_exists. exists (t, WSet k x). split; [assumption|]. simpl. apply rkeq_refl. }
        rewrite Ht in E. discriminate. }
      rewrite (lset_none_no_setter k (rb_sched_ops K V sc1)), (lset_none_no_setter k (rb_sched_ops K V sc2)); [reflexivity| |].
      + intros x Hin. unfold rb_sched_ops in Hin. apply in_map_iff in Hin. destruct Hin as ([t o] & Ho & Hin).
        simpl in Ho. subst o. apply (Hno1 t x). apply in_gproj. rewrite <- proj_is_gproj, Hp. apply in_gproj. assumption.
      + intros x Hin. unfold rb_sched_ops in Hin. apply in_map_iff in Hin. destruct Hin as ([t o] & Ho & Hin).
        simpl in Ho. subst o. apply (Hno1 t x). assumption.
  Qed.

  Lemma sched_bound (sc1 sc2 : rb_sched K V) :
    exists n, (forall x, In x sc1 -> fst x < n) /\ (forall x, In x sc2 -> fst x < n).
  Proof.
    exists (S (list_max (map fst sc1 ++ map fst sc2))).
    pose proof (list_max_le (map fst sc1 ++ map fst sc2) (list_max (map fst sc1 ++ map fst sc2))) as [Hle _].
    specialize (Hle (Nat.le_refl _)). rewrite Forall_forall in Hle.
    split; intros x Hin; apply Nat.lt_succ_r, Hle, in_or_app; [left|right]; apply in_map; assumption.
  Qed.

  Lemma perm_same_projections (sc1 sc2 : rb_sched K V) :
    (forall t, rb_proj K V t sc1 = rb_proj K V t sc2) -> Permutation (rb_sched_ops K V sc1) (rb_sched_ops K V sc2).
  Proof.
    intros Hp. destruct (sched_bound sc1 sc2) as (n & H1 & H2).
    pose proof (interleaves_perm _ _ (sched_interleaves n sc1 H1)) as P1.
    pose proof (interleaves_perm _ _ (sched_interleaves n sc2 H2)) as P2.
    assert (E : map (fun t => gproj t sc1) (seq 0 n) = map (fun t => gproj t sc2) (seq 0 n)).
    { apply map_ext. intros t. apply (Hp t). }
    rewrite E in P1. unfold rb_sched_ops.
    eapply Permutation_trans; [apply Permutation_sym; exact P1|exact P2].
  Qed.

  (* the schedule form: any two schedules with the same per-goroutine programs *)
  Lemma sched_content_independent_lemma (sc1 sc2 : rb_sched K V) :
    (forall t, rb_proj K V t sc1 = rb_proj K V t sc2) ->
    Permutation (rdata (run_sched sc1)) (rdata (run_sched sc2)) /\
    len (run_sched sc1) = len (run_sched sc2) /\
    (keys_owned K V sc1 ->
     forall k, get (run_sched sc1) k = get (run_sched sc2) k /\ has (run_sched sc1) k = has (run_sched sc2) k).
  Proof.
    intros Hp. pose proof (perm_same_projections _ _ Hp) as P. unfold rb_run_sched.
    split; [|split].
    - rewrite !run_data_lemma. apply Permutation_map. assumption.
    - rewrite !len_counts_calls_lemma. apply Permutation_length. assumption.
    - intros Hown k. assert (Hl := lset_same_projections sc1 sc2 k Hp Hown). split.
      + rewrite !get_last_set_lemma, Hl. reflexivity.
      + pose proof (get_last_set_lemma (rb_sched_ops K V sc1) k) as G1.
        pose proof (get_last_set_lemma (rb_sched_ops K V sc2) k) as G2.
        unfold rs_get in G1, G2. unfold rs_has. rewrite Hl in G1.
        destruct (iget k (rindex (run (rb_sched_ops K V sc1)))) as [i1|];
          destruct (iget k (rindex (run (rb_sched_ops K V sc2)))) as [i2|]; try reflexivity.
        * destruct (nth_error (rdata (run (rb_sched_ops K V sc1))) i1); [|discriminate].
          destruct (lset k (rb_sched_ops K V sc2)); [|discriminate]. simpl in G2. discriminate.
        * destruct (nth_error (rdata (run (rb_sched_ops K V sc2))) i2); [|discriminate].
          destruct (lset k (rb_sched_ops K V sc2)); [|discriminate]. simpl in G1. discriminate.
  Qed.

  (* the state is a function of the granted order alone: goroutine identities are irrelevant *)
  Lemma sched_deterministic_lemma (sc1 sc2 : rb_sched K V) :
    rb_sched_ops K V sc1 = rb_sched_ops K V sc2 -> run_sched sc1 = run_sched sc2.
  Proof. intros E. unfold rb_run_sched. rewrite E. reflexivity. Qed.

  (* ---- interleavings of per-goroutine call lists ---- *)

  Lemma interleaves_to_sched ths (l : list wop) :
    interleaves ths l ->
    exists sc : rb_sched K V, rb_sched_ops K V sc = l /\ forall t, rb_proj K V t sc = nth t ths [].
  Proof. intros Hil. destruct (interleaves_sched ths l Hil) as (sc & H1 & H2). exists sc. split; assumption. Qed.

  Lemma keys_disjoint_owned ths (sc : rb_sched K V) :
    (forall t, rb_proj K V t sc = nth t ths []) -> keys_disjoint K V ths -> keys_owned K V sc.
  Proof.
    intros Hp Hdis t1 t2 k r1 r2 H1 H2. apply (Hdis t1 t2 k).
    - apply in_set_keys. exists r1. rewrite <- Hp, proj_is_gproj. apply in_gproj. assumption.
    - apply in_set_keys. exists r2. rewrite <- Hp, proj_is_gproj. apply in_gproj. assumption.
  Qed.

  (* data is an interleaving of what each goroutine stored: nothing lost, nothing twice, program order kept *)
  Lemma data_interleaves_lemma ths (l : list wop) :
    interleaves ths l -> interleaves (map (map entry) ths) (rdata (run l)).
  Proof. intros Hil. rewrite run_data_lemma. apply interleaves_map. assumption. Qed.

  Lemma interleaving_content_independent_lemma ths (l1 l2 : list wop) :
    interleaves ths l1 -> interleaves ths l2 ->
    Permutation (rdata (run l1)) (rdata (run l2)) /\
    len (run l1) = len (run l2) /\
    (keys_disjoint K V ths ->
     forall k, get (run l1) k = get (run l2) k /\ has (run l1) k = has (run l2) k).
  Proof.
    intros H1 H2.
    destruct (interleaves_to_sched _ _ H1) as (sc1 & E1 & P1).
    destruct (interleaves_to_sched _ _ H2) as (sc2 & E2 & P2).
    assert (Hp : forall t, rb_proj K V t sc1 = rb_proj K V t sc2) by (intros t; rewrite P1, P2; reflexivity).
    destruct (sched_content_independent_lemma sc1 sc2 Hp) as (A & B & C).
    unfold rb_run_sched in A, B, C. rewrite E1, E2 in A, B, C.
    split; [assumption|]. split; [assumption|].
    intros Hdis. apply C. apply (keys_disjoint_owned ths); assumption.
  Qed.

  (* Get returns what the key's only writer wrote last, whatever the others did in between *)
  Lemma get_own_writer_lemma ths (l : list wop) t k :
    interleaves ths l -> keys_disjoint K V ths -> In k (skeys (nth t ths [])) ->
    get (run l) k = get (run (nth t ths [])) k.
  Proof.
    intros Hil Hdis Hin. destruct (interleaves_to_sched _ _ Hil) as (sc & E & P).
    rewrite !get_last_set_lemma. rewrite <- E, <- (P t). rewrite (lset_proj k t sc); [reflexivity|].
    intros t' x Hx. apply (Hdis t' t k); [|assumption].
    apply in_set_keys. exists x. rewrite <- P, proj_is_gproj. apply in_gproj. assumption.
  Qed.

  Lemma set_keys_as_map (ops : list wop) :
    skeys ops = map (fun o => rkey (entry o)) (filter (is_set K V) ops).
  Proof.
    induction ops as [|o ops IH]; simpl; [reflexivity|].
    destruct o; simpl; [rewrite IH; reflexivity|assumption].
  Qed.

  Lemma set_keys_interleaves ths (l : list wop) :
    interleaves ths l -> interleaves (map skeys ths) (skeys l).
  Proof.
    intros Hil. rewrite set_keys_as_map.
    assert (E : map skeys ths = map (map (fun o => rkey (entry o))) (map (filter (is_set K V)) ths)).
    { rewrite map_map. apply map_ext. intros th. apply set_keys_as_map. }
    rewrite E. apply interleaves_map, interleaves_filter. assumption.
  Qed.

  (* disjoint key sets, every goroutine Sets each of its keys once: every key once in the whole history *)
  Lemma disjoint_keys_once_lemma ths (l : list wop) :
    interleaves ths l -> keys_disjoint K V ths -> (forall th, In th ths -> NoDup (skeys th)) ->
    NoDup (skeys l).
  Proof.
    intros Hil Hdis Hnd.
    apply (Permutation_NoDup (interleaves_perm _ _ (set_keys_interleaves _ _ Hil))).
    apply NoDup_concat.
    - intros ks Hin. apply in_map_iff in Hin. destruct Hin as (th & <- & Hth). apply Hnd. assumption.
    - intros i j k Hi Hj. apply (Hdis i j k).
      + destruct (lt_dec i (List.length ths)) as [Hlt|Hge].
        * rewrite (nth_indep _ [] (skeys []) ) in Hi by (rewrite map_length; assumption).
          rewrite map_nth in Hi. assumption.
        * rewrite nth_overflow in Hi by (rewrite map_length; lia). destruct Hi.
      + destruct (lt_dec j (List.length ths)) as [Hlt|Hge].
        * rewrite (nth_indep _ [] (skeys []) ) in Hj by (rewrite map_length; assumption).
          rewrite map_nth in Hj. assumption.
        * rewrite nth_overflow in Hj by (rewrite map_length; lia). destruct Hj.
  Qed.

  (* everything at once for an arbitrary schedule / an arbitrary interleaving *)
  Lemma any_schedule_lemma (sc : rb_sched K V) :
    rb_inv (run_sched sc) /\
    rdata (run_sched sc) = map entry (rb_sched_ops K V sc) /\
    (forall k, get (run_sched sc) k = GOk (option_map (mkrule k) (lset k (rb_sched_ops K V sc)))) /\
    (forall k, has (run_sched sc) k = true <-> exists t x, In (t, WSet k x) sc) /\
    len (run_sched sc) = List.length sc.
  Proof.
    unfold rb_run_sched. split; [apply inv_run_lemma|]. split; [apply run_data_lemma|].
    split; [intros k; apply get_last_set_lemma|]. split.
    - intros k. rewrite has_iff_set_lemma, in_set_keys. unfold rb_sched_ops. split.
      + intros (x & Hin). apply in_map_iff in Hin. destruct Hin as ([t o] & Ho & Hin). simpl in Ho. subst o.
        exists t, x. assumption.
      + intros (t & x & Hin). exists x. apply in_map_iff. exists (t, WSet k x). split; [reflexivity|assumption].
    - rewrite len_counts_calls_lemma. unfold rb_sched_ops. apply map_length.
  Qed.

  Lemma any_interleaving_lemma ths (l : list wop) :
    interleaves ths l ->
    rb_inv (run l) /\
    interleaves (map (map entry) ths) (rdata (run l)) /\
    (forall k, get (run l) k = GOk (option_map (mkrule k) (lset k l))) /\
    (forall k, has (run l) k = true <-> exists th, In th ths /\ In k (skeys th)) /\
    len (run l) = List.length (concat ths).
  Proof.
    intros Hil. split; [apply inv_run_lemma|]. split; [apply data_interleaves_lemma; assumption|].
    split; [intros k; apply get_last_set_lemma|]. split.
    - intros k. rewrite has_iff_set_lemma.
      pose proof (interleaves_in _ _ k (set_keys_interleaves _ _ Hil)) as Hin. rewrite Hin. split.
      + intros (ks & Hks & Hk). apply in_map_iff in Hks. destruct Hks as (th & <- & Hth). exists th. split; assumption.
      + intros (th & Hth & Hk). exists (skeys th). split; [apply in_map; assumption|assumption].
    - rewrite len_counts_calls_lemma. apply interleaves_length. assumption.
  Qed.

  (* ---- the readers are not atomic with respect to Set (they take no lock) ---- *)

  Lemma torn_set_get_panics_lemma (s : rstate) k :
    get (rb_set_index K V keq k s) k = GPanic "index out of range"%string.
  Proof.
    unfold rs_get, rb_set_index. simpl. rewrite iget_iset_eq.
    assert (E : nth_error (rdata s) (List.length (rdata s)) = None) by (apply nth_error_None; lia).
    rewrite E. reflexivity.
  Qed.

  (* why the lock must cover BOTH statements of Set: if the index write and the append were two critical
     sections, two Sets could interleave as  index(k1); index(k2); append(r2); append(r1)  and k1 would
     resolve to the rule stored for k2 *)
  Lemma split_set_breaks_index_lemma k1 k2 (x1 x2 : rule) :
    k1 <> k2 ->
    let s := rb_push K V (mkrule k1 (rval x1))
               (rb_push K V (mkrule k2 (rval x2))
                  (rb_set_index K V keq k2 (rb_set_index K V keq k1 rb_new))) in
    get s k1 = GOk (Some (mkrule k2 (rval x2))) /\ ~ rb_inv s.
  Proof.
    intros Hne s.
    assert (Eg : get s k1 = GOk (Some (mkrule k2 (rval x2)))).
    { unfold s, rs_get, rb_push, rb_set_index. simpl. rewrite (rkeq_neq _ _ Hne). simpl.
      rewrite rkeq_refl. reflexivity. }
    split; [assumption|].
    intros Hinv. pose proof (get_returns_its_key s k1 _ Hinv Eg) as Hk. simpl in Hk. apply Hne. symmetry. assumption.
  Qed.

  (* ---- NewRules(d) is Set(r.Key, r) for r in d ---- *)

  Lemma run_from_new d : forall s,
    run_from s (map (fun r => WSet (rkey r) r) d) =
    {| rdata := rdata s ++ d; rindex := new_index K V keq (List.length (rdata s)) d (rindex s) |}.
  Proof.
    induction d as [|r d IH]; intros s.
    - simpl. rewrite app_nil_r. destruct s; reflexivity.
    - simpl map. rewrite run_from_cons, IH. simpl. rewrite length_snoc, <- app_assoc.
      destruct r as [k v]. reflexivity.
  Qed.

  Lemma new_rules_is_sets_lemma d : rs_new K V keq d = run (map (fun r => WSet (rkey r) r) d).
  Proof. unfold rb_run. rewrite run_from_new. reflexivity. Qed.

  (* ---- FINDING: a second Set of a key does not overwrite, it appends ---- *)

  Lemma set_twice_keeps_both_lemma k x y :
    let s := run [WSet k x; WSet k y] in
    rdata s = [mkrule k (rval x); mkrule k (rval y)] /\
    ~ NoDup (map rkey (rdata s)) /\
    get s k = GOk (Some (mkrule k (rval y))) /\
    indexed s = [mkrule k (rval y)] /\
    len s = 2.
  Proof.
    intros s. assert (Ed : rdata s = [mkrule k (rval x); mkrule k (rval y)]) by (unfold s; rewrite run_data_lemma; reflexivity).
    split; [assumption|]. split; [|split; [|split]].
    - rewrite Ed. simpl. intros Hnd. inversion Hnd as [|? ? Hni _]. apply Hni. left. reflexivity.
    - apply (rb_last_set_wins_lemma [WSet k x] k y).
    - unfold rs_indexed. rewrite Ed. unfold s, rb_run, rb_run_from. simpl.
      rewrite !rkeq_refl. simpl. rewrite !rkeq_refl. simpl. reflexivity.
    - unfold rs_len. rewrite Ed. reflexivity.
  Qed.

  (* with a key Set from two goroutines the content DOES depend on the interleaving: the
     disjointness hypothesis of interleaving_content_independent_lemma is needed *)
  Lemma shared_key_depends_on_interleaving_lemma k x y :
    rval x <> rval y ->
    let ths := [[WSet k x]; [WSet k y]] in
    interleaves ths [WSet k x; WSet k y] /\ interleaves ths [WSet k y; WSet k x] /\
    get (run [WSet k x; WSet k y]) k <> get (run [WSet k y; WSet k x]) k.
  Proof.
    intros Hne ths. split; [|split].
    - apply (il_step [] (WSet k x) [] [[WSet k y]]). simpl.
      apply (il_step [[]] (WSet k y) [] []). simpl.
      apply il_done. intros th [<-|[<-|[]]]; reflexivity.
    - apply (il_step [[WSet k x]] (WSet k y) [] []). simpl.
      apply (il_step [] (WSet k x) [] [[]]). simpl.
      apply il_done. intros th [<-|[<-|[]]]; reflexivity.
    - pose proof (rb_last_set_wins_lemma [WSet k x] k y) as H1. pose proof (rb_last_set_wins_lemma [WSet k y] k x) as H2.
      simpl app in H1, H2. rewrite H1, H2.
      intros H. injection H as H. apply Hne. symmetry. assumption.
  Qed.
End Proofs.

Lemma rbeq_spec : forall a b, beq a b = true <-> a = b.
Proof. exact beq_eq. Qed.

(* ------------------------------------------------------------------------------------------ *)
(* the hypotheses are satisfiable: three goroutines, disjoint keys, a genuinely mixed schedule *)

Definition rbk (n : N) : bytes := [n].
Definition rbr (k v : N) : brule := {| rkey := rbk k; rval := rbk v |}.

(* goroutine 0 Sets a, Appends an anonymous rule, Sets b; goroutine 1 Sets c, d and Appends; goroutine 2
   Appends and Sets e.  The rules passed to Set carry a junk key (9) that Set must discard. *)
Definition rex_sched : rb_sched bytes bytes :=
  [ (1, WSet (rbk 3) (rbr 9 31)); (0, WSet (rbk 1) (rbr 9 11)); (2, WAppend (rbr 0 72)); (0, WAppend (rbr 0 70));
    (1, WSet (rbk 4) (rbr 9 41)); (2, WSet (rbk 5) (rbr 9 51)); (0, WSet (rbk 2) (rbr 9 21)); (1, WAppend (rbr 0 71)) ].

Definition rex_threads : list (list (wop bytes bytes)) :=
  [ [WSet (rbk 1) (rbr 9 11); WAppend (rbr 0 70); WSet (rbk 2) (rbr 9 21)];
    [WSet (rbk 3) (rbr 9 31); WSet (rbk 4) (rbr 9 41); WAppend (rbr 0 71)];
    [WAppend (rbr 0 72); WSet (rbk 5) (rbr 9 51)] ].

Definition rex_l : list (wop bytes bytes) := rb_sched_ops _ _ rex_sched.
(* another interleaving of the same goroutines: one after the other *)
Definition rex_l2 : list (wop bytes bytes) := concat rex_threads.

Example rex_interleaves : interleaves rex_threads rex_l.
Proof.
  change rex_threads with (map (fun t => gproj t rex_sched) (seq 0 3)).
  change rex_l with (map snd rex_sched).
  apply sched_interleaves. intros x Hin. simpl in Hin.
  repeat (destruct Hin as [<-|Hin]; [simpl; lia|]). destruct Hin.
Qed.

Example rex_interleaves2 : interleaves rex_threads rex_l2.
Proof.
  unfold rex_l2, rex_threads. simpl.
  apply (il_step [] _ _ _). simpl. apply (il_step [] _ _ _). simpl. apply (il_step [] _ _ _). simpl.
  apply (il_step [[]] _ _ _). simpl. apply (il_step [[]] _ _ _). simpl. apply (il_step [[]] _ _ _). simpl.
  apply (il_step [[]; []] _ _ _). simpl. apply (il_step [[]; []] _ _ _). simpl.
  apply il_done. intros th [<-|[<-|[<-|[]]]]; reflexivity.
Qed.

Example rex_keys_disjoint : keys_disjoint bytes bytes rex_threads.
Proof.
  intros i j k Hi Hj.
  destruct i as [|[|[|i]]]; destruct j as [|[|[|j]]]; try reflexivity; exfalso; simpl in Hi, Hj;
    try (destruct i; simpl in Hi; contradiction); try (destruct j; simpl in Hj; contradiction);
    unfold rbk in Hi, Hj; intuition (subst; discriminate).
Qed.

Example rex_each_goroutine_sets_its_keys_once : forall th, In th rex_threads -> NoDup (rb_set_keys bytes bytes th).
Proof.
  intros th [<-|[<-|[<-|[]]]]; simpl; unfold rbk;
    repeat (constructor; [simpl; intuition discriminate|]); constructor.
Qed.

(* what the theorems then say, computed *)
Example rex_outcome :
  map rule_pair (rdata (rb_run _ _ beq rex_l)) =
    [ (rbk 3, rbk 31); (rbk 1, rbk 11); (rbk 0, rbk 72); (rbk 0, rbk 70); (rbk 4, rbk 41); (rbk 5, rbk 51); (rbk 2, rbk 21); (rbk 0, rbk 71) ] /\
  map rkey (rs_indexed _ _ beq (rb_run _ _ beq rex_l)) = [rbk 3; rbk 1; rbk 4; rbk 5; rbk 2] /\
  rb_set_keys _ _ rex_l = [rbk 3; rbk 1; rbk 4; rbk 5; rbk 2] /\
  rs_get _ _ beq (rb_run _ _ beq rex_l) (rbk 2) = GOk (Some (rbr 2 21)) /\
  rs_get _ _ beq (rb_run _ _ beq rex_l2) (rbk 2) = GOk (Some (rbr 2 21)) /\
  rs_get _ _ beq (rb_run _ _ beq rex_l) (rbk 0) = GOk None /\
  rs_len _ _ (rb_run _ _ beq rex_l) = 8 /\
  map rule_pair (rdata (rb_run _ _ beq rex_l2)) =
    [ (rbk 1, rbk 11); (rbk 0, rbk 70); (rbk 2, rbk 21); (rbk 3, rbk 31); (rbk 4, rbk 41); (rbk 0, rbk 71); (rbk 0, rbk 72); (rbk 5, rbk 51) ].
Proof. vm_compute. repeat split. Qed.

(* the general theorems instantiated on the example: the two interleavings store the same rules and answer
   every Get alike *)
Example rex_content_independent :
  Permutation (rdata (rb_run _ _ beq rex_l)) (rdata (rb_run _ _ beq rex_l2)) /\
  forall k, rs_get _ _ beq (rb_run _ _ beq rex_l) k = rs_get _ _ beq (rb_run _ _ beq rex_l2) k.
Proof.
  destruct (interleaving_content_independent_lemma bytes bytes beq rbeq_spec rex_threads rex_l rex_l2
              rex_interleaves rex_interleaves2) as (P & _ & G).
  split; [exact P|]. intros k. apply (G rex_keys_disjoint k).
Qed.

(* the torn state of Set, on the example: before and after the call Get answers, in between it panics *)
Example rex_unlocked_reader :
  let s := rb_run _ _ beq rex_l in
  rs_get _ _ beq s (rbk 1) = GOk (Some (rbr 1 11)) /\
  rs_get _ _ beq (rb_set_index _ _ beq (rbk 1) s) (rbk 1) = GPanic "index out of range"%string /\
  rs_get _ _ beq (rb_set _ _ beq (rbk 1) (rbr 9 12) s) (rbk 1) = GOk (Some (rbr 1 12)).
Proof. vm_compute. repeat split. Qed.

Example rex_differ : rex_l <> rex_l2.
Proof. vm_compute. discriminate. Qed.
