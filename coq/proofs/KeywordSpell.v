(* C14 - "every keyword lexeme spells a directive the directive table knows", at the level of the scanner table
   REGENERATED from /repo/scanner: the keyword states spell the keywords byte by byte; the strings they can spell are
   collected by walking the (finite, acyclic) graph of these states from every leaf that emits KeywordBegin to the leaves
   that emit KeywordEnd, and compared with gen/DirectiveTables.v (regenerated from /repo/directive).
   TABLE-LEVEL ONLY (hence _partial): the walk is over the decision trees, not over runs of the semantics. *)
From Coq Require Import List NArith Bool String.
From JV.lib Require Import Bytes.
From JV.gen Require Import DirectiveTables ScannerTable ScannerTyping.
From JV.model Require Import ScannerSem TableCheck.
Import ListNotations.
Open Scope N_scope.

Definition is_kw_begin (a : act) : bool := match a with AFound _ KeywordBegin => true | _ => false end.
Definition is_kw_end (a : act) : bool := match a with AFound _ KeywordEnd => true | _ => false end.

(* what a leaf of a keyword state does with the byte it reads *)
Inductive kw_leaf : Set :=
| KStep (t : state)        (* the byte is one more byte of the keyword: [ASetStep t], XNil *)
| KEnd                     (* the byte is the last byte of the keyword: AFound 0 KeywordEnd first, then stack/state only *)
| KErr                     (* the byte is rejected *)
| KBad.                    (* anything else: not the shape of a keyword state *)

Definition quiet_after_end (a : act) : bool :=
  match a with ASetStep _ | APush _ | APushCur => true | _ => false end.

Definition is_kw_end0 (a : act) : bool :=
  match a with AFound b e => (b =? 0) && evt_eqb e KeywordEnd | _ => false end.
Definition is_kw_begin0 (a : act) : bool :=
  match a with AFound b e => (b =? 0) && evt_eqb e KeywordBegin | _ => false end.
Definition is_nil (x : exit) : bool := match x with XNil => true | _ => false end.
Definition is_err (x : exit) : bool := match x with XErr _ => true | _ => false end.
Definition set_target (a : act) : option state := match a with ASetStep t => Some t | _ => None end.

Definition classify (lf : list act * exit) : kw_leaf :=
  if is_err (snd lf) then KErr
  else if negb (is_nil (snd lf)) then KBad
  else
    match fst lf with
    | [a] => match set_target a with Some t => KStep t | None => if is_kw_end0 a then KEnd else KBad end
    | a :: r => if is_kw_end0 a && forallb quiet_after_end r then KEnd else KBad
    | [] => KBad
    end.

Definition bytes_1_255 : list N := map N.of_nat (seq 1 255).

(* the strings spelled from state st after the (reversed) prefix w; None = a leaf of unexpected shape was met or the
   fuel ran out *)
Fixpoint kw_walk (fuel : nat) (st : state) (w : bytes) : option (list bytes) :=
  match fuel with
  | O => None
  | S f =>
    fold_left (fun acc c =>
      fold_left (fun acc lf =>
        match acc with
        | None => None
        | Some l =>
          match classify lf with
          | KErr => Some l
          | KEnd => Some (rev (c :: w) :: l)
          | KStep t => match kw_walk f t (c :: w) with Some l' => Some (l' ++ l) | None => None end
          | KBad => None
          end
        end) (leaves_for (step_tree st) c) acc) bytes_1_255 (Some [])
  end.

(* the end-of-file pseudo byte never continues or ends a keyword *)
Definition kw_eof_rejected (st : state) : bool :=
  forallb (fun lf => match classify lf with KErr => true | _ => false end) (leaves_for (step_tree st) 0).

(* the leaves that open a keyword: exactly [AFound 0 KeywordBegin; ASetStep t], XNil *)
Definition kw_starts : option (list (N * state)) :=
  fold_left (fun acc st => fold_left (fun acc c => fold_left (fun acc lf =>
    match acc with
    | None => None
    | Some l =>
      if existsb is_kw_begin (fst lf) then
        match fst lf with
        | [a; b] =>
          match set_target b with
          | Some t => if is_kw_begin0 a && is_nil (snd lf) then Some ((c, t) :: l) else None
          | None => None
          end
        | _ => None
        end
      else Some l
    end) (leaves_for (step_tree st) c) acc) all_byte_values acc) all_states (Some []).

Definition dedup_starts (l : list (N * state)) : list (N * state) :=
  fold_right (fun x acc => if existsb (fun y => (fst x =? fst y) && state_eqb (snd x) (snd y)) acc then acc else x :: acc) [] l.

Definition opt_app (a b : option (list bytes)) : option (list bytes) :=
  match a with Some l => match b with Some l' => Some (l' ++ l) | None => None end | None => None end.
Definition kw_fuel : nat := 24%nat.
Definition kw_spelled_from (starts : list (N * state)) : option (list bytes) :=
  fold_left (fun acc ct => opt_app acc (kw_walk kw_fuel (snd ct) [fst ct])) starts (Some []).
Definition kw_spelled_of (o : option (list (N * state))) : option (list bytes) :=
  match o with
  | None => None
  | Some starts => kw_spelled_from (dedup_starts starts)
  end.
Definition kw_spelled : option (list bytes) := kw_spelled_of kw_starts.

(* the states the walk goes through = the states in which the typing says a Keyword lexeme is open *)
Definition kw_open_states : list state :=
  filter (fun st => match lexopen gen_typing st with Some KeywordBegin => true | _ => false end) all_states.

(* KeywordEnd is emitted only by those states, first in the leaf and at the current byte; the end of the file is rejected *)
Definition kw_end_only_there : bool :=
  forallb (fun st =>
    state_in st kw_open_states ||
    forallb (fun c => forallb (fun lf => negb (existsb is_kw_end (fst lf))) (leaves_for (step_tree st) c)) all_byte_values)
    all_states &&
  forallb kw_eof_rejected kw_open_states.

(* every keyword state is reached by the walk from some start (so its leaves were all classified) *)
Fixpoint kw_reach (fuel : nat) (st : state) : list state :=
  match fuel with
  | O => []
  | S f =>
    st :: flat_map (fun c => flat_map (fun lf => match classify lf with KStep t => kw_reach f t | _ => [] end)
                                    (leaves_for (step_tree st) c)) bytes_1_255
  end.
Definition kw_reached_of (o : option (list (N * state))) : list state :=
  match o with
  | Some starts => flat_map (fun ct => kw_reach kw_fuel (snd ct)) (dedup_starts starts)
  | None => []
  end.
Definition kw_reached : list state := kw_reached_of kw_starts.

Definition is_response_code (w : bytes) : bool :=
  match w with
  | [a; b; c] =>
    is_digit a && is_digit b && is_digit c &&
    (let code := (a - 48) * 100 + (b - 48) * 10 + (c - 48) in (response_code_lo <=? code) && (code <=? response_code_hi))
  | _ => false
  end.
Definition word_keywords : list bytes :=
  map kind_keyword (filter (fun k => negb (kind_eqb k KHTTPResponseCode)) all_kinds).
Definition is_word_keyword (w : bytes) : bool := existsb (beq w) word_keywords.
Definition all_codes : list bytes :=
  map (fun n => [48 + n / 100; 48 + (n / 10) mod 10; 48 + n mod 10])
      (map (fun i => response_code_lo + N.of_nat i) (seq 0 (N.to_nat (response_code_hi + 1 - response_code_lo)))).

(* the table spells EXACTLY the keywords of the directive table and the response codes of its range *)
Definition kw_exact_of (o : option (list bytes)) : bool :=
  match o with
  | Some l =>
    forallb (fun w => is_word_keyword w || is_response_code w) l &&
    forallb (fun w => existsb (beq w) l) word_keywords &&
    forallb (fun w => existsb (beq w) l) all_codes
  | None => false
  end.
Definition kw_exact : bool := kw_exact_of kw_spelled.
Definition kw_states_agree : bool :=
  forallb (fun st => state_in st kw_reached) kw_open_states && forallb (fun st => state_in st kw_open_states) kw_reached.

Lemma keywords_spelled_table_partial :
  kw_exact = true /\ kw_end_only_there = true /\ kw_states_agree = true.
Proof. vm_compute. repeat split; reflexivity. Qed.

(* the spelled words, for the record *)
Definition kw_words_of (o : option (list bytes)) : list bytes :=
  match o with Some l => filter (fun w => negb (is_response_code w)) l | None => [] end.
Definition kw_spelled_words : list bytes := kw_words_of kw_spelled.

(* ---------------------------------------------------------------------------------------------- *)
(* LIFTED to the semantics (proofs/TM_Keyword.v): a per-state spelling typing - for every state inside a keyword, the
   bytes read since KeywordBegin, as byte sets position by position - is inferred by evaluation (untrusted) and checked
   against every (state, byte, reachable leaf) by KeywordCheck.spell_ok; the invariant "while a KeywordBegin is pending
   or open, the data bytes from its position to the read position are those the state has spelled" is carried through
   dispatch / drain / Next / scan. *)
From JV.model Require Import KeywordCheck.
From JV.proofs Require Import TM_Events TM_Loop ScanTheorems TM_Keyword.

Definition kw_known (w : bytes) : bool := is_word_keyword w || is_response_code w.

Definition gen_spell_tbl : list (option spelling) := Eval vm_compute in infer_spell gen_typing.
Definition gen_spell : state -> option spelling := sp_row gen_spell_tbl.

Lemma gen_spell_ok : spell_ok gen_typing gen_spell kw_known = true.
Proof. vm_compute. reflexivity. Qed.

Lemma existsb_map_filter {A} (f : A -> bytes) (p : A -> bool) (l : list A) (w : bytes) :
  existsb (beq w) (map f (filter p l)) = true -> exists k, p k = true /\ w = f k.
Proof.
  induction l as [|x l IH]; simpl; [discriminate|].
  destruct (p x) eqn:Ep; simpl; [|exact IH].
  intros H. apply orb_true_iff in H. destruct H as [H|H]; [|exact (IH H)].
  exists x. split; [exact Ep | apply beq_eq; exact H].
Qed.

(* conversion hint only: unfold these before the library functions they are made of (otherwise the kernel compares
   the 29-keyword disjunction branch by branch, which is exponential) *)
Strategy expand [kw_known is_word_keyword word_keywords].

Lemma is_word_keyword_spec w : is_word_keyword w = true ->
  exists k, kind_eqb k KHTTPResponseCode = false /\ w = kind_keyword k.
Proof.
  intros E.
  destruct (existsb_map_filter kind_keyword (fun k => negb (kind_eqb k KHTTPResponseCode)) all_kinds w E) as (k & Hk & Ew).
  exists k. split; [apply negb_true_iff; exact Hk | exact Ew].
Qed.

Lemma kw_known_spec w : kw_known w = true ->
  (exists k, kind_eqb k KHTTPResponseCode = false /\ w = kind_keyword k) \/ is_response_code w = true.
Proof.
  intros H. apply orb_prop in H. destruct H as [H|H]; [left; apply is_word_keyword_spec; exact H | right; exact H].
Qed.

Theorem keywords_spelled_lemma jsc_len enum_len data :
  len_sane jsc_len -> len_sane enum_len -> Forall isb data ->
  forall l, In l (scan_lexemes jsc_len enum_len data) -> lk l = LKeyword ->
  (exists k, kind_eqb k KHTTPResponseCode = false /\ lex_bytes data l = kind_keyword k) \/
  is_response_code (lex_bytes data l) = true.
Proof.
  intros H1 H2 H3 l Hin Hk. apply kw_known_spec.
  exact (scan_keywords_generic gen_typing gen_spell kw_known jsc_len enum_len data
           gen_table_ok gen_spell_ok H1 H2 H3 l Hin Hk).
Qed.

(* non-vacuity: the keyword lexemes of a small input and their bytes *)
Example keywords_spelled_example :
  let data := bs "URL /a" ++ [10] ++ bs "  GET" ++ [10] ++ bs "    200 any" ++ [10] ++ bs "Description" ++ [10] ++ bs " x" ++ [10] in
  map (lex_bytes data) (filter (fun l => lexkind_eqb (lk l) LKeyword)
                               (scan_lexemes (fun _ => LenOk 0) (fun _ => LenOk 0) data)) =
  [bs "URL"; bs "GET"; bs "200"; bs "Description"].
Proof. vm_compute. reflexivity. Qed.
