(* The scanner theorems for the table REGENERATED from /repo: instantiation of the
   metatheory (TM_*.v) with gen_typing, whose fitness is decided by computation. *)
From Coq Require Import List NArith ZArith Bool String Lia.
From JV.lib Require Import Bytes.
From JV.gen Require Import ScannerTable ScannerTyping.
From JV.model Require Import ScannerSem TableCheck.
From JV.proofs Require Import TM_Basics TM_Stack TM_Events TM_Dispatch TM_Loop.
Import ListNotations.
Open Scope N_scope.

(* the finite obligation: every (state, byte, leaf) of the regenerated table fits the typing *)
Lemma gen_table_ok : table_ok gen_typing = true.
Proof. vm_compute. reflexivity. Qed.

Section Scan.
  Variable ty : typing.
  Hypothesis Hok : table_ok ty = true.
  Variable jsc_len enum_len : bytes -> len_result.
  Hypothesis jsc_sane : len_sane jsc_len.
  Hypothesis enum_sane : len_sane enum_len.
  Variable data : bytes.
  Hypothesis Hbytes : Forall isb data.

  Let size := N.of_nat (List.length data).

  Lemma init_GI : GI ty size (None, 0) (init_cfg data) /\ AllB (init_cfg data).
  Proof.
    destruct (ok_init ty Hok) as (Hn & Hl & Hg & Hm).
    split.
    - split; [reflexivity|]. split; [exact I|]. split; [simpl; lia|].
      split; [eexists; reflexivity|]. split; [constructor|].
      intros _. split; [simpl; exact Hn|].
      split; [|split; [split; simpl; unfold size; lia | constructor]].
      exists None, 0. split; [reflexivity|]. split; [simpl; rewrite Hl; reflexivity|].
      unfold ast0. simpl. split; [lia|]. split; [lia|]. split; [lia|]. intros _. lia.
    - split; [constructor | exact Hbytes].
  Qed.

  Lemma init_MM : (MM ty size (init_cfg data) < Z.of_nat (scan_fuel data))%Z.
  Proof.
    unfold MM, PhiR', PhiR, scan_fuel, KPOT. simpl pos. simpl reg. simpl finds. simpl List.length.
    destruct (ok_sane ty Hok initial_state) as (_ & H & _). unfold RHO_MAX in H.
    destruct (0 <=? size); unfold size; lia.
  Qed.

  Theorem scan_sound_generic :
    match scan jsc_len enum_len data with
    | (lexs, e, _) => end_ok size e /\ lexemes_from size 0 lexs
    end.
  Proof.
    unfold scan. destruct init_GI as [HG HA].
    apply (scan_all_sound ty Hok jsc_len enum_len jsc_sane enum_sane data size (scan_fuel data)
                          (None, 0) (init_cfg data) [] 0 HG HA init_MM).
    - exact I.
    - simpl. lia.
  Qed.
End Scan.

(* for the scanner of /repo as it is now *)
Theorem scan_sound jsc_len enum_len data :
  len_sane jsc_len -> len_sane enum_len -> Forall isb data ->
  match scan jsc_len enum_len data with
  | (lexs, e, _) => end_ok (N.of_nat (List.length data)) e /\
                    lexemes_from (N.of_nat (List.length data)) 0 lexs
  end.
Proof. intros. apply (scan_sound_generic gen_typing gen_table_ok); assumption. Qed.

(* ---- corollaries in the vocabulary of the properties ---- *)
Definition in_bounds (size : N) (l : lexeme) : Prop := lb l <= le l + 1 /\ le l + 1 <= size.

Fixpoint ordered (ls : list lexeme) : Prop :=
  match ls with
  | [] => True
  | l :: r => match r with [] => True | l2 :: _ => le l + 1 <= lb l2 end /\ ordered r
  end.

Lemma lexemes_from_in_bounds size F ls : lexemes_from size F ls -> Forall (in_bounds size) ls.
Proof.
  revert F; induction ls as [|l r IH]; intros F H; [constructor|].
  destruct H as (A & _ & C). constructor; [exact A | eapply IH; exact C].
Qed.

Lemma lexemes_from_ordered size F ls : lexemes_from size F ls -> ordered ls.
Proof.
  revert F; induction ls as [|l r IH]; intros F H; [exact I|].
  destruct H as (_ & _ & C). split; [|eapply IH; exact C].
  destruct r as [|l2 r2]; [exact I|]. destruct C as (_ & C2 & _). exact C2.
Qed.

Definition scan_lexemes jsc_len enum_len data : list lexeme := fst (fst (scan jsc_len enum_len data)).
Definition scan_result jsc_len enum_len data : scan_end := snd (fst (scan jsc_len enum_len data)).

(* C01(a): the scanner ends with end-of-file or with a diagnostic located inside the file;
   it never panics and never runs out of fuel (= never loops) *)
Theorem scan_total_lemma jsc_len enum_len data :
  len_sane jsc_len -> len_sane enum_len -> Forall isb data ->
  match scan_result jsc_len enum_len data with
  | SEof => True
  | SErr p _ => p <= N.of_nat (List.length data)
  | SPanic _ => False
  | SFuel => False
  end.
Proof.
  intros H1 H2 H3. pose proof (scan_sound jsc_len enum_len data H1 H2 H3) as H.
  unfold scan_result. destruct (scan jsc_len enum_len data) as [[lexs e] g]. simpl. destruct H as [H _].
  destruct e; exact H.
Qed.

(* C14: lexemes lie inside the input, do not overlap, come in increasing position *)
Theorem lexemes_wf_lemma jsc_len enum_len data :
  len_sane jsc_len -> len_sane enum_len -> Forall isb data ->
  Forall (in_bounds (N.of_nat (List.length data))) (scan_lexemes jsc_len enum_len data) /\
  ordered (scan_lexemes jsc_len enum_len data).
Proof.
  intros H1 H2 H3. pose proof (scan_sound jsc_len enum_len data H1 H2 H3) as H.
  unfold scan_lexemes. destruct (scan jsc_len enum_len data) as [[lexs e] g]. simpl. destruct H as [_ H].
  split; [eapply lexemes_from_in_bounds | eapply lexemes_from_ordered]; exact H.
Qed.
