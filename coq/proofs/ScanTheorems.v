(* The scanner theorems for the table REGENERATED from /repo: instantiation of the
   metatheory (TM_*.v) with gen_typing, whose fitness is decided by computation. *)
From Coq Require Import List NArith ZArith Bool String Lia.
From JV.lib Require Import Bytes.
From JV.gen Require Import ScannerTable ScannerTyping.
From JV.model Require Import ScannerSem TableCheck.
From JV.proofs Require Import TM_Basics TM_Stack TM_Events TM_Dispatch TM_Loop.
Import ListNotations.
Open Scope N_scope.

(* the finite obligation: every (state, byte, leaf) of the regenerated table fits the typing *)
Lemma gen_table_ok : table_ok gen_typing = true.
Proof. vm_compute. reflexivity. Qed.

Section Scan.
  Variable ty : typing.
  Hypothesis Hok : table_ok ty = true.
  Variable jsc_len enum_len : bytes -> len_result.
  Hypothesis jsc_sane : len_sane jsc_len.
  Hypothesis enum_sane : len_sane enum_len.
  Variable data : bytes.
  Hypothesis Hbytes : Forall isb data.

  Let size := N.of_nat (List.length data).

  Lemma init_GI : GI ty size (None, 0) (init_cfg data) /\ AllB (init_cfg data).
  Proof.
    destruct (ok_init ty Hok) as (Hn & Hl & Hg & Hm).
    split.
    - split; [reflexivity|]. split; [exact I|]. split; [simpl; lia|].
      split; [eexists; reflexivity|]. split; [constructor|].
      intros _. split; [simpl; exact Hn|].
      split; [|split; [split; simpl; unfold size; lia | constructor]].
      exists None, 0. split; [reflexivity|]. split; [simpl; rewrite Hl; reflexivity|].
      unfold ast0. simpl. split; [lia|]. split; [lia|]. split; [lia|]. intros _. lia.
    - split; [constructor | exact Hbytes].
  Qed.

  Lemma init_MM : (MM ty size (init_cfg data) < Z.of_nat (scan_fuel data))%Z.
  Proof.
    unfold MM, PhiR', PhiR, scan_fuel, KPOT. simpl pos. simpl reg. simpl finds. simpl List.length.
    destruct (ok_sane ty Hok initial_state) as (_ & H & _). unfold RHO_MAX in H.
    destruct (0 <=? size); unfold size; lia.
  Qed.

  Theorem scan_sound_generic :
    match scan jsc_len enum_len data with
    | (lexs, e, _) => end_ok size e /\ lexemes_from size 0 lexs
    end.
  Proof.
    unfold scan. destruct init_GI as [HG HA].
    apply (scan_all_sound ty Hok jsc_len enum_len jsc_sane enum_sane data size (scan_fuel data)
                          (None, 0) (init_cfg data) [] 0 HG HA init_MM).
    - exact I.
    - simpl. lia.
  Qed.
End Scan.

(* for the scanner of /repo as it is now *)
Theorem scan_sound jsc_len enum_len data :
  len_sane jsc_len -> len_sane enum_len -> Forall isb data ->
  match scan jsc_len enum_len data with
  | (lexs, e, _) => end_ok (N.of_nat (List.length data)) e /\
                    lexemes_from (N.of_nat (List.length data)) 0 lexs
  end.
Proof. intros. apply (scan_sound_generic gen_typing gen_table_ok); assumption. Qed.
