(* C16, the part a proof can carry: the ordered collections as atomic transition systems.
   Every statement is about ALL operation sequences from the zero value, i.e. about every
   linearisation of every concurrent history (each method is atomic under the mutex: locks_ok). *)
From Coq Require Import List NArith Bool Lia String Arith.
From JV.lib Require Import Bytes.
From JV.gen Require Import Collections.
From JV.model Require Import OrderedMap LockDiscipline.
Import ListNotations.

Lemma NoDup_snoc {A} (l : list A) (k : A) : NoDup l -> ~ In k l -> NoDup (l ++ [k]).
Proof.
  induction l as [|x l IH]; simpl; intros Hnd Hni.
  - constructor; [intros []|constructor].
  - inversion Hnd as [|? ? Hx Hl]; subst. constructor.
    + intros Hin. apply in_app_or in Hin as [Hin|Hin]; [auto|].
      simpl in Hin. destruct Hin as [Hin|[]]. apply Hni. left. congruence.
    + apply IH; [assumption|]. intros Hin. apply Hni. right. assumption.
Qed.

Section Proofs.
  Variable K V : Type.
  Variable keq : K -> K -> bool.
  Hypothesis keq_spec : forall a b, keq a b = true <-> a = b.
  Variable vzero : V.

  Local Notation lk := (lookup K V keq).
  Local Notation aset := (assoc_set K V keq).
  Local Notation mem := (kmem K keq).
  Local Notation omap := (omap K V).
  Local Notation mop := (mop K V).
  Local Notation has := (om_has K V keq).
  Local Notation get := (om_get K V keq).
  Local Notation step := (om_step K V keq vzero).
  Local Notation run := (om_run K V keq vzero).
  Local Notation run_from := (om_run_from K V keq vzero).
  Local Notation marshal := (om_marshal K V keq vzero).
  Local Notation focc := (first_occ K keq).

  Definition keys (d : list (K * V)) : list K := map fst d.

  Lemma keq_refl (a : K) : keq a a = true.
  Proof. apply keq_spec. reflexivity. Qed.

  Lemma keq_neq (a b : K) : a <> b -> keq a b = false.
  Proof. intros H. destruct (keq a b) eqn:E; [|reflexivity]. apply keq_spec in E. contradiction. Qed.

  Lemma keq_false (a b : K) : keq a b = false -> a <> b.
  Proof. intros H E. subst b. rewrite keq_refl in H. discriminate. Qed.

  Lemma keq_dec (a b : K) : {a = b} + {a <> b}.
  Proof. destruct (keq a b) eqn:E; [left; apply keq_spec; assumption|right; apply keq_false; assumption]. Qed.

  Lemma kmem_In k l : mem k l = true <-> In k l.
  Proof.
    induction l as [|x l IH]; simpl.
    - split; [discriminate|intros []].
    - rewrite orb_true_iff, IH, keq_spec. reflexivity.
  Qed.

  Lemma kmem_not_In k l : mem k l = false <-> ~ In k l.
  Proof.
    rewrite <- kmem_In. destruct (mem k l); split; intro H; try reflexivity; try discriminate.
    - exfalso. apply H. reflexivity.
  Qed.

  (* ---- association lists ---- *)

  Lemma lookup_some_in k d v : lk k d = Some v -> In k (keys d).
  Proof.
    induction d as [|[k' v'] r IH]; simpl; [discriminate|].
    destruct (keq k' k) eqn:E; intros H.
    - left. apply keq_spec. assumption.
    - right. apply IH. assumption.
  Qed.

  Lemma lookup_none_notin k d : lk k d = None -> ~ In k (keys d).
  Proof.
    induction d as [|[k' v'] r IH]; simpl; [intros _ []|].
    destruct (keq k' k) eqn:E; intros H; [discriminate|].
    intros [Hin|Hin]; [apply keq_false in E; contradiction|apply IH; assumption].
  Qed.

  Lemma in_keys_lookup k d : In k (keys d) -> exists v, lk k d = Some v.
  Proof.
    intros Hin. destruct (lk k d) as [v|] eqn:E; [exists v; reflexivity|].
    exfalso. apply (lookup_none_notin _ _ E). assumption.
  Qed.

  Lemma lookup_in_pair k d v : lk k d = Some v -> In (k, v) d.
  Proof.
    induction d as [|[k' v'] r IH]; simpl; [discriminate|].
    destruct (keq k' k) eqn:E; intros H.
    - apply keq_spec in E. left. congruence.
    - right. apply IH. assumption.
  Qed.

  Lemma keys_assoc_set k v d :
    keys (aset k v d) = match lk k d with Some _ => keys d | None => keys d ++ [k] end.
  Proof.
    induction d as [|[k' v'] r IH]; simpl; [reflexivity|].
    destruct (keq k' k) eqn:E; simpl; [reflexivity|].
    rewrite IH. destruct (lk k r); reflexivity.
  Qed.

  Lemma lookup_assoc_set_eq k v d : lk k (aset k v d) = Some v.
  Proof.
    induction d as [|[k' v'] r IH]; simpl.
    - rewrite keq_refl. reflexivity.
    - destruct (keq k' k) eqn:E; simpl; rewrite E; [reflexivity|assumption].
  Qed.

  Lemma lookup_assoc_set_neq k k' v d : k <> k' -> lk k' (aset k v d) = lk k' d.
  Proof.
    intros Hne. induction d as [|[k0 v0] r IH]; simpl.
    - rewrite (keq_neq _ _ Hne). reflexivity.
    - destruct (keq k0 k) eqn:E; simpl.
      + apply keq_spec in E. subst k0. rewrite (keq_neq _ _ Hne). reflexivity.
      + destruct (keq k0 k'); [reflexivity|assumption].
  Qed.

  (* ---- the invariant ---- *)

  Definition inv (m : omap) : Prop :=
    NoDup (order m) /\
    (forall k, In k (order m) <-> In k (keys (data m))) /\
    NoDup (keys (data m)).

  Lemma inv_empty : inv om_empty.
  Proof. repeat split; simpl; try constructor; intros []. Qed.

  Lemma has_true_iff m k : has m k = true <-> In k (keys (data m)).
  Proof.
    unfold om_has. destruct (lk k (data m)) as [v|] eqn:E; split; intro H; try reflexivity; try discriminate.
    - eapply lookup_some_in; eassumption.
    - exfalso. eapply lookup_none_notin; eassumption.
  Qed.

  Lemma has_is_mem_order m k : inv m -> has m k = mem k (order m).
  Proof.
    intros (_ & Hdom & _).
    destruct (has m k) eqn:Eh; symmetry.
    - apply kmem_In, Hdom, has_true_iff. assumption.
    - apply kmem_not_In. intros Hin. apply Hdom, has_true_iff in Hin. congruence.
  Qed.

  Lemma inv_insert_data m k v (Hinv : inv m) :
    forall ord',
      (has m k = true -> ord' = order m) ->
      (has m k = false -> NoDup ord' /\ forall x, In x ord' <-> In x (order m) \/ x = k) ->
      inv {| data := aset k v (data m); order := ord' |}.
  Proof.
    intros ord' Hyes Hno. destruct Hinv as (Hnd & Hdom & Hndk).
    unfold inv; simpl. rewrite keys_assoc_set.
    destruct (has m k) eqn:Eh.
    - rewrite (Hyes eq_refl). unfold om_has in Eh.
      destruct (lk k (data m)); [|discriminate]. repeat split; try assumption; apply Hdom.
    - destruct (Hno eq_refl) as (Hnd' & Hin'). unfold om_has in Eh.
      destruct (lk k (data m)) eqn:El; [discriminate|].
      pose proof (lookup_none_notin _ _ El) as Hni.
      split; [assumption|]. split.
      + intros x. rewrite Hin', in_app_iff, Hdom. simpl. intuition.
      + apply NoDup_snoc; assumption.
  Qed.

  Lemma inv_set m k v : inv m -> inv (om_set K V keq k v m).
  Proof.
    intros Hinv. unfold om_set. apply inv_insert_data; [assumption| |].
    - intros ->. reflexivity.
    - intros E. rewrite E. destruct Hinv as (Hnd & Hdom & _). split.
      + apply NoDup_snoc; [assumption|]. intros Hin. apply Hdom, has_true_iff in Hin. congruence.
      + intros x. rewrite in_app_iff. simpl. intuition.
  Qed.

  Lemma inv_set_to_top m k v : inv m -> inv (om_set_to_top K V keq k v m).
  Proof.
    intros Hinv. unfold om_set_to_top. apply inv_insert_data; [assumption| |].
    - intros ->. reflexivity.
    - intros E. rewrite E. destruct Hinv as (Hnd & Hdom & _). split.
      + constructor; [|assumption]. intros Hin. apply Hdom, has_true_iff in Hin. congruence.
      + intros x. simpl. intuition.
  Qed.

  Lemma inv_same_keys m d' : inv m -> keys d' = keys (data m) -> inv {| data := d'; order := order m |}.
  Proof. intros (Hnd & Hdom & Hndk) E. unfold inv; simpl. rewrite E. repeat split; try assumption; apply Hdom. Qed.

  Lemma inv_update m k f : inv m -> inv (om_update K V keq k f m).
  Proof.
    intros Hinv. unfold om_update. destruct (lk k (data m)) as [v|] eqn:E; [|assumption].
    apply inv_same_keys; [assumption|]. rewrite keys_assoc_set, E. reflexivity.
  Qed.

  Lemma map_loop_keys f ks : forall d,
    (forall k, In k ks -> In k (keys d)) ->
    keys (fst (map_loop K V keq vzero f ks d)) = keys d.
  Proof.
    induction ks as [|k ks IH]; intros d Hall; simpl; [reflexivity|].
    destruct (f k (getz K V keq vzero d k)) as [v|]; [|reflexivity].
    assert (Ek : keys (aset k v d) = keys d).
    { rewrite keys_assoc_set. destruct (in_keys_lookup k d (Hall k (or_introl eq_refl))) as [v0 ->]. reflexivity. }
    rewrite IH; [assumption|]. intros x Hx. rewrite Ek. apply Hall. right. assumption.
  Qed.

  Lemma order_map f m : order (fst (om_map K V keq vzero f m)) = order m.
  Proof. unfold om_map. destruct (map_loop K V keq vzero f (order m) (data m)). reflexivity. Qed.

  Lemma data_map f m : data (fst (om_map K V keq vzero f m)) = fst (map_loop K V keq vzero f (order m) (data m)).
  Proof. unfold om_map. destruct (map_loop K V keq vzero f (order m) (data m)). reflexivity. Qed.

  Lemma snd_map f m : snd (om_map K V keq vzero f m) = snd (map_loop K V keq vzero f (order m) (data m)).
  Proof. unfold om_map. destruct (map_loop K V keq vzero f (order m) (data m)). reflexivity. Qed.

  (* a Map that fails half-way still leaves a well-formed collection *)
  Lemma inv_map f m : inv m -> inv (fst (om_map K V keq vzero f m)).
  Proof.
    intros Hinv.
    assert (E : fst (om_map K V keq vzero f m) =
                {| data := fst (map_loop K V keq vzero f (order m) (data m)); order := order m |}).
    { unfold om_map. destruct (map_loop K V keq vzero f (order m) (data m)). reflexivity. }
    rewrite E. apply inv_same_keys; [assumption|]. apply map_loop_keys.
    intros k Hk. destruct Hinv as (_ & Hdom & _). apply Hdom. assumption.
  Qed.

  Lemma inv_step m o : inv m -> inv (step m o).
  Proof.
    intros Hinv. destruct o; simpl; try assumption.
    - apply inv_set; assumption.
    - apply inv_set_to_top; assumption.
    - apply inv_update; assumption.
    - apply inv_map; assumption.
  Qed.

  Lemma inv_run_from ops : forall m, inv m -> inv (run_from m ops).
  Proof.
    induction ops as [|o ops IH]; intros m Hinv; simpl; [assumption|].
    apply IH, inv_step, Hinv.
  Qed.

  Theorem om_invariant_lemma ops :
    let m := run ops in
    NoDup (order m) /\
    (forall k, In k (order m) <-> In k (map fst (data m))) /\
    NoDup (map fst (data m)).
  Proof. apply (inv_run_from ops om_empty inv_empty). Qed.

  (* ---- Len ---- *)
  Lemma len_is_order_length_inv m : inv m -> om_len K V m = List.length (order m).
  Proof.
    intros (Hnd & Hdom & Hndk). unfold om_len.
    replace (List.length (data m)) with (List.length (keys (data m))) by apply map_length.
    apply Nat.le_antisymm; apply NoDup_incl_length; try assumption; intros x Hx; apply Hdom; assumption.
  Qed.

  Theorem len_counts_keys_lemma ops : om_len K V (run ops) = List.length (order (run ops)).
  Proof. apply len_is_order_length_inv, (inv_run_from ops om_empty inv_empty). Qed.

  (* ---- no lost update ---- *)

  Lemma map_loop_lookup f k ks : forall d,
    NoDup ks ->
    (forall x, In x ks -> In x (keys d)) ->
    snd (map_loop K V keq vzero f ks d) = true ->
    lk k (fst (map_loop K V keq vzero f ks d)) =
    if mem k ks
    then match lk k d with
         | Some v => match f k v with Some v' => Some v' | None => Some v end
         | None => None
         end
    else lk k d.
  Proof.
    induction ks as [|x ks IH]; intros d Hnd Hall Hok; simpl; [reflexivity|].
    simpl in Hok.
    destruct (in_keys_lookup x d (Hall x (or_introl eq_refl))) as [vx Evx].
    assert (Eg : getz K V keq vzero d x = vx) by (unfold getz; rewrite Evx; reflexivity).
    rewrite Eg in *.
    destruct (f x vx) as [v1|] eqn:Ef; [|simpl in Hok; discriminate].
    inversion Hnd as [|? ? Hx Hnd']; subst.
    assert (Ek : keys (aset x v1 d) = keys d) by (rewrite keys_assoc_set, Evx; reflexivity).
    rewrite (IH (aset x v1 d) Hnd'); [|intros y Hy; rewrite Ek; apply Hall; right; assumption|assumption].
    destruct (keq x k) eqn:Exk; simpl.
    - apply keq_spec in Exk. subst x.
      assert (Em : mem k ks = false) by (apply kmem_not_In; assumption).
      rewrite Em, lookup_assoc_set_eq, Evx, Ef. reflexivity.
    - apply keq_false in Exk. rewrite (lookup_assoc_set_neq _ _ _ _ Exk). reflexivity.
  Qed.

  Lemma get_step m o k :
    inv m ->
    match o with OMap f => snd (om_map K V keq vzero f m) | _ => true end = true ->
    get (step m o) k = key_step K V keq k (get m k) o.
  Proof.
    intros Hinv Hok. unfold om_get. destruct o as [k' v|k' v|k' f|f|k'|k'| | |]; simpl; try reflexivity.
    - destruct (keq k' k) eqn:E.
      + apply keq_spec in E. subst k'. apply lookup_assoc_set_eq.
      + apply lookup_assoc_set_neq, keq_false, E.
    - destruct (keq k' k) eqn:E.
      + apply keq_spec in E. subst k'. apply lookup_assoc_set_eq.
      + apply lookup_assoc_set_neq, keq_false, E.
    - unfold om_update. destruct (lk k' (data m)) as [v0|] eqn:El; simpl.
      + destruct (keq k' k) eqn:E.
        * apply keq_spec in E. subst k'. rewrite lookup_assoc_set_eq, El. reflexivity.
        * apply lookup_assoc_set_neq, keq_false, E.
      + destruct (keq k' k) eqn:E; [|reflexivity].
        apply keq_spec in E. subst k'. rewrite El. reflexivity.
    - rewrite data_map. rewrite snd_map in Hok. destruct Hinv as (Hnd & Hdom & Hndk).
      rewrite (map_loop_lookup f k (order m) (data m) Hnd); [|intros x Hx; apply Hdom; assumption|assumption].
      destruct (mem k (order m)) eqn:Em.
      + reflexivity.
      + apply kmem_not_In in Em. destruct (lk k (data m)) as [v|] eqn:El; [|reflexivity].
        exfalso. apply Em, Hdom. eapply lookup_some_in; eassumption.
  Qed.

  Lemma no_lost_update_from k ops : forall m,
    inv m ->
    maps_succeed_from K V keq vzero m ops = true ->
    get (run_from m ops) k = fold_left (key_step K V keq k) ops (get m k).
  Proof.
    induction ops as [|o ops IH]; intros m Hinv Hok; simpl; [reflexivity|].
    simpl in Hok. apply andb_true_iff in Hok as [Ho Hrest].
    rewrite (IH (step m o)); [|apply inv_step; assumption|assumption].
    rewrite (get_step m o k Hinv Ho). reflexivity.
  Qed.

  (* the value of k after ANY history is what the writers of k alone produce, in history order:
     no write of k is lost, no write of another key interferes *)
  Theorem no_lost_update_lemma ops k :
    maps_succeed K V keq vzero ops = true ->
    get (run ops) k = key_history K V keq k ops.
  Proof. intros Hok. apply (no_lost_update_from k ops om_empty inv_empty Hok). Qed.

  (* last writer wins *)
  Theorem last_set_wins_lemma ops k v :
    get (run (ops ++ [OSet k v])) k = Some v.
  Proof.
    unfold om_run, om_run_from. rewrite fold_left_app. simpl. unfold om_get, om_set; simpl.
    apply lookup_assoc_set_eq.
  Qed.

  (* Update on a missing key is a no-op *)
  Theorem update_missing_noop_lemma ops k f :
    get (run ops) k = None -> run (ops ++ [OUpdate k f]) = run ops.
  Proof.
    intros Hnone. unfold om_run, om_run_from. rewrite fold_left_app. simpl.
    unfold om_update. unfold om_get, om_run, om_run_from in Hnone. rewrite Hnone. reflexivity.
  Qed.

  (* a failing Map changes neither the keys nor the order *)
  Theorem map_keeps_order_lemma f m : order (fst (om_map K V keq vzero f m)) = order m.
  Proof. apply order_map. Qed.

  (* ---- the order ---- *)

  Lemma order_step_eq m o : inv m -> order (step m o) = order_step K V keq (order m) o.
  Proof.
    intros Hinv. destruct o; simpl; try reflexivity.
    - rewrite (has_is_mem_order m k Hinv). reflexivity.
    - rewrite (has_is_mem_order m k Hinv). reflexivity.
    - unfold om_update. destruct (lk k (data m)); reflexivity.
    - apply order_map.
  Qed.

  Lemma order_history_from ops : forall m, inv m ->
    order (run_from m ops) = fold_left (order_step K V keq) ops (order m).
  Proof.
    induction ops as [|o ops IH]; intros m Hinv; simpl; [reflexivity|].
    rewrite (IH (step m o) (inv_step m o Hinv)), (order_step_eq m o Hinv). reflexivity.
  Qed.

  (* the order depends on the Set/SetToTop calls only, never on values, updates or maps *)
  Theorem order_is_order_history_lemma ops : order (run ops) = order_history K V keq ops.
  Proof. apply (order_history_from ops om_empty inv_empty). Qed.

  Lemma first_occ_fold ops : forall acc,
    no_set_to_top K V ops = true ->
    fold_left (order_step K V keq) ops acc = acc ++ focc acc (set_keys K V ops).
  Proof.
    induction ops as [|o ops IH]; intros acc Hno; simpl.
    - rewrite app_nil_r. reflexivity.
    - destruct o as [k v|k v|k f|f|k|k| | |]; simpl in Hno |- *; try discriminate; try (apply IH; assumption).
      destruct (mem k acc) eqn:Em.
      + apply IH; assumption.
      + rewrite (IH (acc ++ [k]) Hno), <- app_assoc. reflexivity.
  Qed.

  (* "source order": without SetToTop, the order is the keys in order of FIRST insertion *)
  Theorem first_insertion_order_lemma ops :
    no_set_to_top K V ops = true ->
    order (run ops) = focc [] (set_keys K V ops).
  Proof.
    intros Hno. rewrite order_is_order_history_lemma. unfold order_history.
    rewrite (first_occ_fold ops [] Hno). reflexivity.
  Qed.

  Lemma first_occ_in l : forall seen x, In x (focc seen l) <-> In x l /\ ~ In x seen.
  Proof.
    induction l as [|k r IH]; intros seen x; simpl; [tauto|].
    destruct (mem k seen) eqn:Em.
    - rewrite IH. apply kmem_In in Em. split.
      + intros [H1 H2]. split; [right|]; assumption.
      + intros [[H1|H1] H2]; [subst; contradiction|split; assumption].
    - apply kmem_not_In in Em. simpl. rewrite IH, in_app_iff. simpl. split.
      + intros [H|[H1 H2]]; [subst; split; [left; reflexivity|assumption]|].
        split; [right; assumption|]. intros H3. apply H2. left. assumption.
      + intros [[H1|H1] H2]; [left; assumption|].
        destruct (keq_dec k x) as [E|E]; [left; assumption|right].
        split; [assumption|]. intros [H3|[H3|[]]]; contradiction.
  Qed.

  Lemma first_occ_nodup l : forall seen, NoDup (focc seen l).
  Proof.
    induction l as [|k r IH]; intros seen; simpl; [constructor|].
    destruct (mem k seen); [apply IH|].
    constructor; [|apply IH].
    rewrite first_occ_in, in_app_iff. intros [_ H]. apply H. right. left. reflexivity.
  Qed.

  (* Set / SetToTop on an existing key keep its position *)
  Theorem set_keeps_position_lemma ops k v :
    In k (order (run ops)) ->
    order (run (ops ++ [OSet k v])) = order (run ops) /\
    order (run (ops ++ [OSetToTop k v])) = order (run ops).
  Proof.
    intros Hin. pose proof (inv_run_from ops om_empty inv_empty) as Hinv.
    unfold om_run, om_run_from in *. rewrite !fold_left_app. simpl.
    assert (Eh : has (fold_left step ops om_empty) k = true).
    { rewrite (has_is_mem_order _ k Hinv). apply kmem_In. assumption. }
    rewrite Eh. split; reflexivity.
  Qed.

  (* Has(k) / Get(k) succeed exactly on the keys of the order *)
  Theorem has_iff_in_order_lemma ops k :
    has (run ops) k = true <-> In k (order (run ops)).
  Proof.
    pose proof (inv_run_from ops om_empty inv_empty) as Hinv.
    change (run_from om_empty ops) with (run ops) in Hinv.
    rewrite (has_is_mem_order (run ops) k Hinv). apply kmem_In.
  Qed.

  (* ---- MarshalJSON / Each ---- *)

  Lemma marshal_keys m : map fst (marshal m) = order m.
  Proof.
    unfold om_marshal, om_each. rewrite map_map. simpl. apply map_id.
  Qed.

  Theorem marshal_each_key_once_lemma ops :
    let m := run ops in
    map fst (marshal m) = order m /\
    NoDup (map fst (marshal m)) /\
    (forall k v, In (k, v) (marshal m) <-> get m k = Some v) /\
    List.length (marshal m) = om_len K V m.
  Proof.
    intros m. pose proof (inv_run_from ops om_empty inv_empty) as Hinv. fold m in Hinv.
    split; [apply marshal_keys|]. split; [rewrite marshal_keys; apply Hinv|]. split.
    - intros k v. destruct Hinv as (Hnd & Hdom & Hndk). unfold om_marshal, om_each, om_get. split.
      + intros Hin. apply in_map_iff in Hin as (k0 & E & Hk0). injection E as -> <-.
        destruct (in_keys_lookup k (data m) (proj1 (Hdom k) Hk0)) as [v0 E0].
        unfold getz. rewrite E0. reflexivity.
      + intros E. apply in_map_iff. exists k. split.
        * unfold getz. rewrite E. reflexivity.
        * apply Hdom. eapply lookup_some_in; eassumption.
    - unfold om_marshal, om_each. rewrite map_length. symmetry. apply len_is_order_length_inv. assumption.
  Qed.

  (* ---- the Set variant ---- *)

  Lemma os_run_from_acc ks : forall acc,
    os_run_from K keq {| sdata := acc; sorder := acc |} ks =
    {| sdata := acc ++ focc acc ks; sorder := acc ++ focc acc ks |}.
  Proof.
    unfold os_run_from.
    induction ks as [|k ks IH]; intros acc; simpl.
    - rewrite app_nil_r. reflexivity.
    - replace (os_add K keq k {| sdata := acc; sorder := acc |})
        with (if mem k acc then {| sdata := acc; sorder := acc |}
              else {| sdata := acc ++ [k]; sorder := acc ++ [k] |}) by reflexivity.
      destruct (mem k acc) eqn:Em.
      + apply IH.
      + rewrite IH, <- app_assoc. reflexivity.
  Qed.

  Theorem set_add_each_once_lemma ks :
    let s := os_run_from K keq os_empty ks in
    os_data K s = focc [] ks /\ NoDup (os_data K s) /\ os_len K s = List.length (os_data K s) /\
    (forall k, os_has K keq s k = true <-> In k ks).
  Proof.
    intros s. unfold s, os_empty. rewrite (os_run_from_acc ks []). simpl.
    split; [reflexivity|]. split; [apply first_occ_nodup|]. split; [reflexivity|].
    intros k. unfold os_has; simpl. rewrite kmem_In, first_occ_in. simpl. tauto.
  Qed.
End Proofs.

(* ---------------------------------------------------------------------------------------- *)
(* lock discipline and method/operation table of the REGENERATED facts *)

Lemma locks_ok_lemma : locks_check collections = true.
Proof. vm_compute. reflexivity. Qed.

Lemma ops_ok_lemma : ops_check collections = true.
Proof. vm_compute. reflexivity. Qed.

(* the checker does reject the mutations it is there for *)
Open Scope string_scope.
Definition demo (set_lock has_lock : lock) : collection :=
  {| c_pkg := "catalog"; c_name := "Servers"; c_variant := VOrderedMap; c_has_mutex := true;
     c_methods := [ {| m_name := "Set"; m_op := OpSet; m_lock := set_lock; m_calls := ["has"] |};
                    {| m_name := "Has"; m_op := OpHas; m_lock := has_lock; m_calls := ["has"] |};
                    {| m_name := "has"; m_op := OpHas; m_lock := LkNone; m_calls := [] |} ] |}.
Example locks_check_accepts : collection_ok (demo LkWrite LkRead) = true.
Proof. vm_compute. reflexivity. Qed.
Example locks_check_rejects_unlocked_writer : collection_ok (demo LkNone LkRead) = false.
Proof. vm_compute. reflexivity. Qed.
Example locks_check_rejects_rlock_writer : collection_ok (demo LkRead LkRead) = false.
Proof. vm_compute. reflexivity. Qed.
Example locks_check_rejects_unlocked_reader : collection_ok (demo LkWrite LkNone) = false.
Proof. vm_compute. reflexivity. Qed.
Close Scope string_scope.

(* ---------------------------------------------------------------------------------------- *)
(* concrete histories, by computation (K = V = bytes) *)

Definition bk (s : string) : bytes := bs s.
Definition ex_ops : list (mop bytes bytes) :=
  [ OSet (bk "b") (bk "1"); OSet (bk "a") (bk "2"); OUpdate (bk "b") (fun v => v ++ bk "x");
    OSet (bk "b") (bk "3"); OSetToTop (bk "c") (bk "4"); OUpdate (bk "zz") (fun v => v ++ bk "y");
    OMap (fun _ v => Some (v ++ bk "m")); OSetToTop (bk "a") (bk "5"); OUpdate (bk "b") (fun v => v ++ bk "u") ].
Definition ex_m := om_run bytes bytes beq [] ex_ops.

Example ex_invariant : order ex_m = [bk "c"; bk "b"; bk "a"] /\ map fst (data ex_m) = [bk "b"; bk "a"; bk "c"].
Proof. vm_compute. split; reflexivity. Qed.

Example ex_no_lost_update :
  om_get _ _ beq ex_m (bk "b") = Some (bk "3mu") /\ key_history _ _ beq (bk "b") ex_ops = Some (bk "3mu") /\
  om_get _ _ beq ex_m (bk "a") = Some (bk "5") /\ om_get _ _ beq ex_m (bk "zz") = None.
Proof. vm_compute. repeat split; reflexivity. Qed.

Example ex_marshal :
  om_marshal _ _ beq [] ex_m = [(bk "c", bk "4m"); (bk "b", bk "3mu"); (bk "a", bk "5")].
Proof. vm_compute. reflexivity. Qed.

Example ex_first_insertion_order :
  order (om_run bytes bytes beq []
           [OSet (bk "q") (bk "1"); OSet (bk "p") (bk "2"); OSet (bk "q") (bk "3"); OSet (bk "r") (bk "4"); OSet (bk "p") (bk "5")])
  = [bk "q"; bk "p"; bk "r"].
Proof. vm_compute. reflexivity. Qed.

Example ex_set_keeps_position :
  order (om_run bytes bytes beq [] (ex_ops ++ [OSet (bk "b") (bk "9")])) = order ex_m.
Proof. vm_compute. reflexivity. Qed.

(* a Map whose callback fails at the second key: first key updated, rest untouched, order intact *)
Example ex_failing_map :
  let m := om_run bytes bytes beq [] [OSet (bk "a") (bk "1"); OSet (bk "b") (bk "2"); OSet (bk "c") (bk "3")] in
  let r := om_map _ _ beq [] (fun k v => if beq k (bk "b") then None else Some (v ++ bk "!")) m in
  snd r = false /\ om_marshal _ _ beq [] (fst r) = [(bk "a", bk "1!"); (bk "b", bk "2"); (bk "c", bk "3")].
Proof. vm_compute. split; reflexivity. Qed.

Example ex_set_variant :
  os_data _ (os_run_from _ beq os_empty [bk "x"; bk "y"; bk "x"; bk "z"; bk "y"]) = [bk "x"; bk "y"; bk "z"].
Proof. vm_compute. reflexivity. Qed.

(* FINDING (constructor only, not reachable from concurrent Add): NewStringSet(vv...) stores vv
   as the order without removing duplicates, so a key can appear twice in Data(). *)
Lemma new_set_keeps_duplicates_lemma :
  exists vv : list bytes, ~ NoDup (os_data _ (os_new _ beq vv)) /\ os_len _ (os_new _ beq vv) <> List.length (os_data _ (os_new _ beq vv)).
Proof.
  exists [bk "a"; bk "a"]. split.
  - vm_compute. intros H. inversion H as [|? ? Hni _]; subst. apply Hni. left. reflexivity.
  - vm_compute. discriminate.
Qed.

Lemma beq_spec : forall a b, beq a b = true <-> a = b.
Proof. exact beq_eq. Qed.
