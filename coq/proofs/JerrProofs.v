(* Proofs about the model of the location arithmetic (model/Jerr.v) against the
   specification vocabulary of spec/JerrSpec.v. *)
From Coq Require Import List NArith Bool String Lia.
From Coq Require Import ZifyN ZifyNat ZifyBool.
From JV.lib Require Import Bytes.
From JV.model Require Import Jerr.
From JV.spec Require Import JerrSpec.
Import ListNotations.
Open Scope N_scope.

(* ------------------------------------------------------------------------------------ *)
(* arithmetic helpers *)

Lemma usub_mod a b : a < w64 -> b < w64 -> usub a b = (a + w64 - b) mod w64.
Proof.
  intros Ha Hb. unfold usub. destruct (b <=? a) eqn:E.
  - replace (a + w64 - b) with ((a - b) + 1 * w64) by lia.
    rewrite N.mod_add by (unfold w64; lia). rewrite N.mod_small by lia. reflexivity.
  - rewrite N.mod_small by lia. reflexivity.
Qed.

Lemma usub_le a b : b <= a -> usub a b = a - b.
Proof. intros H. unfold usub. destruct (b <=? a) eqn:E; [reflexivity | lia]. Qed.

Lemma usub_S k : usub (N.of_nat (S k)) 1 = N.of_nat k.
Proof. rewrite usub_le by lia. lia. Qed.

(* ------------------------------------------------------------------------------------ *)
(* list helpers *)

Lemma firstn_S_nth (s : bytes) k c :
  nth_error s k = Some c -> firstn (S k) s = firstn k s ++ [c].
Proof.
  revert k; induction s as [|x s IH]; intros [|k] H; try discriminate.
  - injection H as ->. reflexivity.
  - cbn [nth_error] in H. cbn [firstn app]. rewrite <- IH by exact H. reflexivity.
Qed.

Lemma skipn_nth (s : bytes) k c :
  nth_error s k = Some c -> skipn k s = c :: skipn (S k) s.
Proof.
  revert k; induction s as [|x s IH]; intros [|k] H; try discriminate.
  - injection H as ->. reflexivity.
  - cbn [nth_error] in H. cbn [skipn]. exact (IH k H).
Qed.

Lemma nth_error_lt (s : bytes) k : (k < List.length s)%nat -> exists c, nth_error s k = Some c.
Proof.
  intros H. destruct (nth_error s k) eqn:E; [eexists; reflexivity|].
  apply nth_error_None in E. lia.
Qed.

Lemma gidxN_ok s k c : nth_error s k = Some c -> gidxN s (N.of_nat k) = GOk c.
Proof.
  intros H. unfold gidxN, glen.
  assert (Hk : (k < List.length s)%nat) by (apply nth_error_Some; congruence).
  destruct (N.of_nat k <? N.of_nat (List.length s)) eqn:E; [|lia].
  rewrite Nat2N.id, H. reflexivity.
Qed.

Lemma gidxN_okN s i c : nthN s i = Some c -> gidxN s i = GOk c.
Proof.
  unfold nthN. intros H. rewrite <- (N2Nat.id i). apply gidxN_ok. exact H.
Qed.

Lemma gidxN_oob s i : glen s <= i -> gidxN s i = GPanic oob.
Proof. intros H. unfold gidxN. destruct (i <? glen s) eqn:E; [lia | reflexivity]. Qed.

Lemma nthN_lt s i : i < glen s -> exists c, nthN s i = Some c.
Proof. unfold nthN, glen. intros H. apply nth_error_lt. lia. Qed.

Lemma nthN_some_lt s i c : nthN s i = Some c -> i < glen s.
Proof.
  unfold nthN, glen. intros H.
  assert ((N.to_nat i < List.length s)%nat) by (apply nth_error_Some; congruence). lia.
Qed.

Lemma nthN_of_nat s k : nthN s (N.of_nat k) = nth_error s k.
Proof. unfold nthN. rewrite Nat2N.id. reflexivity. Qed.

(* ------------------------------------------------------------------------------------ *)
(* TrimSpacesFromLeft *)

Lemma tsfl_go_spec b rest :
  (forallb is_blank rest = true /\ tsfl_go b rest = b) \/
  (exists pre c r, rest = pre ++ c :: r /\ forallb is_blank pre = true /\ is_blank c = false /\
                   tsfl_go b rest = c :: r).
Proof.
  induction rest as [|c r IH]; cbn [tsfl_go forallb].
  - left. split; reflexivity.
  - destruct (is_blank c) eqn:Ec.
    + destruct IH as [[H1 H2] | (pre & c' & r' & -> & Hp & Hc & Ht)].
      * left. split; [exact H1 | exact H2].
      * right. exists (c :: pre), c', r'. cbn [forallb app]. rewrite Ec, Hp.
        repeat split; assumption.
    + right. exists [], c, r. repeat split. exact Ec.
Qed.

(* the result is a suffix of the input, what is dropped is blank; the result starts with a
   non-blank byte unless the whole input is blank, in which case it is returned unchanged *)
Lemma tsfl_spec b :
  exists pre, b = pre ++ trim_spaces_from_left b /\ forallb is_blank pre = true /\
    ((forallb is_blank b = true /\ pre = []) \/
     (exists c r, trim_spaces_from_left b = c :: r /\ is_blank c = false)).
Proof.
  unfold trim_spaces_from_left.
  destruct (tsfl_go_spec b b) as [[H1 H2] | (pre & c & r & Hb & Hp & Hc & Ht)].
  - exists []. rewrite H2. repeat split. left. split; [exact H1 | reflexivity].
  - exists pre. rewrite Ht. split; [exact Hb|]. split; [exact Hp|]. right. exists c, r. split; [reflexivity | exact Hc].
Qed.

Lemma tsfl_trim_left b :
  trim_spaces_from_left b = if forallb is_blank b then b else trim_left is_blank b.
Proof.
  unfold trim_spaces_from_left.
  assert (G : forall b0 rest, tsfl_go b0 rest = if forallb is_blank rest then b0 else trim_left is_blank rest).
  { intros b0 rest. induction rest as [|c r IH]; cbn [tsfl_go forallb trim_left]; [reflexivity|].
    destruct (is_blank c); cbn [andb]; [exact IH | reflexivity]. }
  apply G.
Qed.

Lemma tsfl_incl b c : In c (trim_spaces_from_left b) -> In c b.
Proof.
  destruct (tsfl_spec b) as (pre & Hb & _). intros H. rewrite Hb. apply in_or_app. right. exact H.
Qed.

(* ------------------------------------------------------------------------------------ *)
(* slice *)

Lemma skipn_add (l : bytes) n m : skipn m (skipn n l) = skipn (n + m) l.
Proof.
  revert l; induction n as [|n IH]; intros l; [reflexivity|].
  destruct l as [|x l]; cbn [skipn Nat.add]; [destruct m; reflexivity | apply IH].
Qed.

Lemma slice_split s a b : a <= b -> b <= glen s ->
  s = firstn (N.to_nat a) s ++ slice s a b ++ skipn (N.to_nat b) s.
Proof.
  intros Hab Hb. unfold slice.
  rewrite <- (firstn_skipn (N.to_nat a) s) at 1. f_equal.
  rewrite <- (firstn_skipn (N.to_nat (b - a)) (skipn (N.to_nat a) s)) at 1. f_equal.
  rewrite skipn_add. f_equal. lia.
Qed.

Lemma nth_error_firstn_lt (l : bytes) n k : (k < n)%nat -> nth_error (firstn n l) k = nth_error l k.
Proof.
  revert l k; induction n as [|n IH]; intros l k H; [lia|].
  destruct l as [|x l]; [destruct k; reflexivity|].
  destruct k as [|k]; [reflexivity|]. cbn [firstn nth_error]. apply IH. lia.
Qed.

Lemma nth_error_skipn_add (l : bytes) n k : nth_error (skipn n l) k = nth_error l (n + k).
Proof.
  revert l; induction n as [|n IH]; intros l; [reflexivity|].
  destruct l as [|x l]; [destruct k; reflexivity|]. cbn [skipn Nat.add nth_error]. apply IH.
Qed.

Lemma nth_error_slice s a b k :
  (k < N.to_nat (b - a))%nat -> nth_error (slice s a b) k = nth_error s (N.to_nat a + k).
Proof.
  intros Hk. unfold slice. rewrite nth_error_firstn_lt by exact Hk.
  rewrite nth_error_skipn_add. reflexivity.
Qed.

Lemma In_slice s a b c : In c (slice s a b) -> exists j, a <= j < b /\ nthN s j = Some c.
Proof.
  intros H. apply In_nth_error in H as [k Hk].
  assert (Hlen : (k < List.length (slice s a b))%nat) by (apply nth_error_Some; congruence).
  unfold slice in Hlen. rewrite firstn_length in Hlen.
  assert (Hk' : (k < N.to_nat (b - a))%nat) by lia.
  rewrite nth_error_slice in Hk by exact Hk'.
  exists (a + N.of_nat k). split; [lia|]. unfold nthN.
  replace (N.to_nat (a + N.of_nat k)) with (N.to_nat a + k)%nat by lia. exact Hk.
Qed.

Lemma gslice_ok s a b : a <= b -> b <= glen s -> gslice s a b = GOk (slice s a b).
Proof.
  intros H1 H2. unfold gslice.
  destruct ((a <=? b) && (b <=? glen s)) eqn:E; [reflexivity | lia].
Qed.

(* ------------------------------------------------------------------------------------ *)
(* DetectNewLineSymbol *)

(* the same scan, structurally over the remaining bytes *)
Fixpoint dnl (s : bytes) (nl : N) (found : bool) : N :=
  match s with
  | [] => nl
  | c :: r => if (c =? 10) || (c =? 13) then dnl r c true
              else if found then nl else dnl r nl found
  end.

Lemma detect_nl_loop_dnl s : forall fuel k nl found,
  (List.length s - k < fuel)%nat -> (k <= List.length s)%nat ->
  detect_nl_loop fuel s (N.of_nat k) nl found = GOk (dnl (skipn k s) nl found).
Proof.
  induction fuel as [|f IH]; intros k nl found Hf Hk; [lia|].
  cbn [detect_nl_loop]. unfold glen.
  destruct (N.of_nat k <? N.of_nat (List.length s)) eqn:E.
  - destruct (nth_error_lt s k ltac:(lia)) as [c Hc].
    rewrite (gidxN_ok _ _ _ Hc). cbn [gbind]. rewrite (skipn_nth _ _ _ Hc). cbn [dnl].
    replace (N.of_nat k + 1) with (N.of_nat (S k)) by lia.
    destruct ((c =? 10) || (c =? 13)).
    + apply IH; lia.
    + destruct found; [reflexivity | apply IH; lia].
  - rewrite skipn_all2 by lia. reflexivity.
Qed.

Lemma detect_nl_dnl s : detect_nl s = GOk (dnl s 10 false).
Proof.
  unfold detect_nl. change 0 with (N.of_nat 0).
  rewrite detect_nl_loop_dnl by lia. reflexivity.
Qed.

(* after a newline byte has been seen: the rest of the run decides *)
Lemma dnl_found s : forall nl,
  exists run post, s = run ++ post /\ all_new_line run /\
    (post = [] \/ exists c post', post = c :: post' /\ is_new_line c = false) /\
    dnl s nl true = last run nl.
Proof.
  induction s as [|c r IH]; intros nl.
  - exists [], []. repeat split; [intros ? [] | left; reflexivity].
  - cbn [dnl]. destruct ((c =? 10) || (c =? 13)) eqn:Ec.
    + destruct (IH c) as (run & post & -> & Hrun & Hpost & Hd).
      exists (c :: run), post. split; [reflexivity|]. split.
      { intros x [<-|Hx]; [exact Ec | exact (Hrun x Hx)]. }
      split; [exact Hpost|]. rewrite Hd.
      destruct run as [|y run]; [reflexivity|].
      cbn [last]. clear. revert y. induction run as [|z run IHr]; intros y; [reflexivity|].
      cbn [last] in *. apply IHr.
    + exists [], (c :: r). split; [reflexivity|]. split; [intros ? []|].
      split; [right; exists c, r; split; [reflexivity | exact Ec] | reflexivity].
Qed.

Lemma dnl_spec s : is_detected_nl s (dnl s 10 false).
Proof.
  unfold is_detected_nl. induction s as [|c r IH]; cbn [dnl].
  - left. split; [intros ? [] | reflexivity].
  - destruct ((c =? 10) || (c =? 13)) eqn:Ec.
    + right. destruct (dnl_found r c) as (run & post & -> & Hrun & Hpost & Hd).
      exists [], (c :: run), post. split; [reflexivity|]. split; [intros ? []|].
      split; [discriminate|]. split.
      { intros x [<-|Hx]; [exact Ec | exact (Hrun x Hx)]. }
      split; [exact Hpost|]. rewrite Hd.
      destruct run as [|y run]; [reflexivity|].
      cbn [last]. clear. revert y. induction run as [|z run IHr]; intros y; [reflexivity|].
      cbn [last] in *. apply IHr.
    + destruct IH as [[Hno ->] | (pre & run & post & -> & Hpre & Hne & Hrun & Hpost & ->)].
      * left. split; [|reflexivity]. intros x [<-|Hx]; [exact Ec | exact (Hno x Hx)].
      * right. exists (c :: pre), run, post. split; [reflexivity|]. split.
        { intros x [<-|Hx]; [exact Ec | exact (Hpre x Hx)]. }
        repeat split; assumption.
Qed.

Lemma detect_nl_spec_lemma s : exists nl, detect_nl s = GOk nl /\ is_detected_nl s nl.
Proof. exists (dnl s 10 false). split; [apply detect_nl_dnl | apply dnl_spec]. Qed.

Lemma dnl_cr_lf s : forall nl found, (nl = 10 \/ nl = 13) -> dnl s nl found = 10 \/ dnl s nl found = 13.
Proof.
  induction s as [|c r IH]; intros nl found H; cbn [dnl]; [exact H|].
  destruct ((c =? 10) || (c =? 13)) eqn:Ec.
  - apply IH. lia.
  - destruct found; [exact H | apply IH; exact H].
Qed.

Lemma detect_nl_cr_lf s nl : detect_nl s = GOk nl -> nl = 10 \/ nl = 13.
Proof.
  rewrite detect_nl_dnl. intros H. injection H as <-. apply dnl_cr_lf. left. reflexivity.
Qed.

(* ------------------------------------------------------------------------------------ *)
(* LineNumber *)

(* contribution of position j to the count: a newline byte that is not AT position *)
Definition ind (s : bytes) (nl pos : N) (j : nat) : N :=
  match nth_error s j with
  | Some c => if (c =? nl) && negb (N.of_nat j =? pos) then 1 else 0
  | None => 0
  end.

Fixpoint cntx (s : bytes) (nl pos : N) (k : nat) : N :=
  match k with
  | O => ind s nl pos 0
  | S k' => cntx s nl pos k' + ind s nl pos (S k')
  end.

Lemma line_number_loop_spec s nl pos : forall k fuel n,
  (k < fuel)%nat -> (k < List.length s)%nat ->
  line_number_loop fuel s pos nl (N.of_nat k) n = GOk (n + cntx s nl pos k).
Proof.
  induction k as [|k IH]; intros fuel n Hf Hk; (destruct fuel as [|f]; [lia|]);
    cbn [line_number_loop cntx]; unfold ind at 1;
    destruct (nth_error_lt s _ Hk) as [c Hc]; rewrite (gidxN_ok _ _ _ Hc), Hc; cbn [gbind].
  - change (N.of_nat 0 =? 0) with true. cbv iota.
    destruct ((c =? nl) && negb (N.of_nat 0 =? pos)); f_equal; lia.
  - destruct (N.of_nat (S k) =? 0) eqn:E0; [lia|].
    rewrite usub_S. rewrite IH by lia.
    destruct ((c =? nl) && negb (N.of_nat (S k) =? pos)); f_equal; lia.
Qed.

Lemma count_occ_snoc (l : bytes) c nl :
  N.of_nat (count_occ N.eq_dec (l ++ [c]) nl) =
  N.of_nat (count_occ N.eq_dec l nl) + (if c =? nl then 1 else 0).
Proof.
  rewrite count_occ_app. cbn [count_occ].
  destruct (N.eq_dec c nl) as [->|Hne].
  - rewrite N.eqb_refl. lia.
  - destruct (c =? nl) eqn:E; [apply N.eqb_eq in E; contradiction | lia].
Qed.

Lemma cntx_firstn s nl pos : forall k,
  (k < List.length s)%nat -> N.of_nat k < pos ->
  cntx s nl pos k = N.of_nat (count_occ N.eq_dec (firstn (S k) s) nl).
Proof.
  induction k as [|k IH]; intros Hk Hp; cbn [cntx]; unfold ind;
    destruct (nth_error_lt s _ Hk) as [c Hc]; rewrite Hc, (firstn_S_nth _ _ _ Hc), count_occ_snoc.
  - cbn [firstn count_occ]. destruct (N.of_nat 0 =? pos) eqn:E; [lia|].
    rewrite andb_true_r. reflexivity.
  - rewrite IH by lia. destruct (N.of_nat (S k) =? pos) eqn:E; [lia|].
    rewrite andb_true_r. reflexivity.
Qed.

Lemma ind_at_pos s nl p : ind s nl (N.of_nat p) p = 0.
Proof.
  unfold ind. destruct (nth_error s p); [|reflexivity].
  rewrite N.eqb_refl, andb_false_r. reflexivity.
Qed.

Lemma line_number_spec_lemma s pos nl :
  line_number s pos nl = GOk (1 + nl_before s nl pos).
Proof.
  unfold line_number, nl_before. destruct s as [|x s'] eqn:Es.
  - cbn [glen List.length]. change (N.of_nat 0 =? 0) with true. cbv iota.
    rewrite firstn_nil. reflexivity.
  - rewrite <- Es. assert (Hlen : List.length s = S (List.length s')) by (subst s; reflexivity).
    unfold glen. rewrite Hlen. destruct (N.of_nat (S (List.length s')) =? 0) eqn:E0; [lia|].
    rewrite usub_S. revert Hlen E0. generalize (List.length s'). intros m Hlen E0.
    destruct (N.of_nat m <? pos) eqn:Ecl.
    + (* clamped: position beyond the last byte *)
      rewrite line_number_loop_spec by lia. cbn [gbind].
      rewrite cntx_firstn by lia.
      rewrite (firstn_all2 (n := S m)) by lia. rewrite (firstn_all2 (n := N.to_nat pos)) by lia.
      f_equal. lia.
    + assert (Hp : pos = N.of_nat (N.to_nat pos)) by lia.
      revert Hp Ecl. generalize (N.to_nat pos). intros p -> Ecl.
      rewrite line_number_loop_spec by lia. cbn [gbind]. f_equal.
      destruct p as [|p].
      * cbn [cntx firstn count_occ]. rewrite ind_at_pos. reflexivity.
      * cbn [cntx]. rewrite ind_at_pos. rewrite cntx_firstn by lia. lia.
Qed.

(* ------------------------------------------------------------------------------------ *)
(* LineBeginning *)

(* invariant of the backward scan started at index k *)
Definition LB (s : bytes) (nl pos : N) (k : nat) (lb : N) : Prop :=
  lb <= N.of_nat k + 1 /\
  (lb = 0 \/ (nthN s (lb - 1) = Some nl /\ lb - 1 <> pos)) /\
  (forall j c, lb <= j <= N.of_nat k -> j <> pos -> nthN s j = Some c -> c <> nl).

Lemma line_beginning_loop_spec s nl pos : forall k fuel,
  (k < fuel)%nat -> (k < List.length s)%nat ->
  exists lb, line_beginning_loop fuel s pos nl (N.of_nat k) = GOk lb /\ LB s nl pos k lb.
Proof.
  induction k as [|k IH]; intros fuel Hf Hk; (destruct fuel as [|f]; [lia|]);
    cbn [line_beginning_loop];
    destruct (nth_error_lt s _ Hk) as [c Hc]; rewrite (gidxN_ok _ _ _ Hc); cbn [gbind].
  - destruct ((c =? nl) && negb (N.of_nat 0 =? pos)) eqn:Et.
    + exists (N.of_nat 0 + 1). split; [reflexivity|]. unfold LB. split; [lia|]. split.
      * right. replace (N.of_nat 0 + 1 - 1) with (N.of_nat 0) by lia.
        rewrite nthN_of_nat, Hc. split; [f_equal|]; lia.
      * intros j c' Hj. lia.
    + change (N.of_nat 0 =? 0) with true. cbv iota.
      exists (N.of_nat 0). split; [reflexivity|]. unfold LB. split; [lia|]. split; [left; reflexivity|].
      intros j c' Hj Hne Hn. assert (j = N.of_nat 0) by lia. subst j.
      rewrite nthN_of_nat, Hc in Hn. injection Hn as <-. lia.
  - destruct ((c =? nl) && negb (N.of_nat (S k) =? pos)) eqn:Et.
    + exists (N.of_nat (S k) + 1). split; [reflexivity|]. unfold LB. split; [lia|]. split.
      * right. replace (N.of_nat (S k) + 1 - 1) with (N.of_nat (S k)) by lia.
        rewrite nthN_of_nat, Hc. split; [f_equal|]; lia.
      * intros j c' Hj. lia.
    + destruct (N.of_nat (S k) =? 0) eqn:E0; [lia|]. rewrite usub_S.
      destruct (IH f ltac:(lia) ltac:(lia)) as (lb & Hlb & H1 & H2 & H3).
      exists lb. split; [exact Hlb|]. unfold LB. split; [lia|]. split; [exact H2|].
      intros j c' Hj Hne Hn.
      destruct (N.eq_dec j (N.of_nat (S k))) as [->|Hjk].
      * rewrite nthN_of_nat, Hc in Hn. injection Hn as <-. lia.
      * apply (H3 j c'); [lia | exact Hne | exact Hn].
Qed.

Lemma line_beginning_spec_lemma s pos nl :
  exists lb, line_beginning s pos nl = GOk lb /\ is_line_beginning s nl pos lb.
Proof.
  unfold line_beginning, is_line_beginning. destruct s as [|x s'] eqn:Es.
  - cbn [glen List.length]. change (N.of_nat 0 =? 0) with true. cbv iota.
    exists 0. split; [reflexivity|]. split; [lia|]. split; [left; reflexivity|]. intros j c Hj. unfold glen in Hj. cbn [List.length] in Hj. lia.
  - rewrite <- Es. assert (Hlen : List.length s = S (List.length s')) by (subst s; reflexivity).
    unfold glen. rewrite Hlen. destruct (N.of_nat (S (List.length s')) =? 0) eqn:E0; [lia|].
    rewrite usub_S. revert Hlen E0. generalize (List.length s'). intros m Hlen E0.
    destruct (N.of_nat m <? pos) eqn:Ecl.
    + destruct (line_beginning_loop_spec s nl pos m (S (S m)) ltac:(lia) ltac:(lia))
        as (lb & Hlb & H1 & H2 & H3).
      exists lb. split; [exact Hlb|]. split; [lia|]. split.
      * destruct H2 as [H2|[H2 _]]; [left | right]; exact H2.
      * intros j c Hj Hn. apply (H3 j c); [lia | lia | exact Hn].
    + assert (Hp : pos = N.of_nat (N.to_nat pos)) by lia.
      revert Hp Ecl. generalize (N.to_nat pos). intros p -> Ecl.
      destruct (line_beginning_loop_spec s nl (N.of_nat p) p (S (S m)) ltac:(lia) ltac:(lia))
        as (lb & Hlb & H1 & H2 & H3).
      exists lb. split; [exact Hlb|]. split; [|split].
      * destruct H2 as [H2|[_ H2]]; lia.
      * destruct H2 as [H2|[H2 _]]; [left | right]; exact H2.
      * intros j c Hj Hn. apply (H3 j c); [lia | lia | exact Hn].
Qed.

(* ------------------------------------------------------------------------------------ *)
(* LineEnd *)

(* outcome of the forward scan started at index i *)
Definition LE (s : bytes) (nl i e : N) : Prop :=
  i <= e /\
  (glen s <= i -> e = i) /\
  (i <= glen s ->
     e <= glen s /\ (e = glen s \/ nthN s e = Some nl) /\
     (forall j c, i <= j < e -> nthN s j = Some c -> c <> nl)).

Lemma line_end_loop_spec s nl : forall fuel i,
  (N.to_nat (glen s - i) < fuel)%nat ->
  exists e, line_end_loop fuel s nl i = GOk e /\ LE s nl i e.
Proof.
  induction fuel as [|f IH]; intros i Hf; [lia|].
  cbn [line_end_loop]. destruct (i <? glen s) eqn:Ei.
  - destruct (nthN_lt s i ltac:(lia)) as [c Hc]. rewrite (gidxN_okN _ _ _ Hc). cbn [gbind].
    destruct (c =? nl) eqn:Ec.
    + exists i. split; [reflexivity|]. unfold LE. split; [lia|]. split; [lia|]. intros _.
      split; [lia|]. split; [right; rewrite Hc; f_equal; lia|]. intros j c' Hj. lia.
    + destruct (IH (i + 1) ltac:(lia)) as (e & He & H1 & H2 & H3).
      exists e. split; [exact He|]. unfold LE. split; [lia|]. split; [lia|]. intros _.
      destruct (H3 ltac:(lia)) as (H4 & H5 & H6).
      split; [exact H4|]. split; [exact H5|]. intros j c' Hj Hn.
      destruct (N.eq_dec j i) as [->|Hji].
      * rewrite Hc in Hn. injection Hn as <-. lia.
      * apply (H6 j c'); [lia | exact Hn].
  - exists i. split; [reflexivity|]. unfold LE. split; [lia|]. split; [reflexivity|]. intros Hi.
    split; [lia|]. split; [left; lia|]. intros j c' Hj. lia.
Qed.

Lemma line_end_spec_lemma s pos nl : pos <= glen s ->
  exists e, line_end s pos nl = GOk e /\ is_line_end s nl pos e.
Proof.
  intros Hpos. unfold line_end.
  destruct (line_end_loop_spec s nl (S (List.length s)) pos ltac:(unfold glen; lia))
    as (e0 & He0 & H1 & _ & H3).
  destruct (H3 Hpos) as (H4 & H5 & H6). rewrite He0. cbn [gbind].
  destruct (0 <? e0) eqn:Epos.
  - destruct (nthN_lt s (e0 - 1) ltac:(lia)) as [c Hc].
    rewrite usub_le by lia. rewrite (gidxN_okN _ _ _ Hc). cbn [gbind].
    fold (other_nl nl c). destruct (other_nl nl c) eqn:Eo.
    + exists (e0 - 1). split; [reflexivity|]. exists e0. split; [lia|]. split; [exact H5|].
      split; [exact H6|]. right. split; [lia|]. exists c. split; [exact Hc | exact Eo].
    + exists e0. split; [reflexivity|]. exists e0. split; [lia|]. split; [exact H5|].
      split; [exact H6|]. left. split; [reflexivity|]. right. exists c. split; [exact Hc | exact Eo].
  - exists e0. split; [reflexivity|]. exists e0. split; [lia|]. split; [exact H5|].
    split; [exact H6|]. left. split; [reflexivity|]. left. lia.
Qed.

(* beyond the end of the content LineEnd reads content[position-1]: index out of range *)
Lemma line_end_panics s pos nl : glen s < pos -> line_end s pos nl = GPanic oob.
Proof.
  intros Hpos. unfold line_end.
  destruct (line_end_loop_spec s nl (S (List.length s)) pos ltac:(unfold glen; lia))
    as (e0 & He0 & _ & H2 & _).
  rewrite He0, (H2 ltac:(lia)). cbn [gbind].
  destruct (0 <? pos) eqn:E; [|lia]. rewrite usub_le by lia.
  rewrite gidxN_oob by lia. reflexivity.
Qed.

Lemma other_nl_irrefl nl : other_nl nl nl = false.
Proof. unfold other_nl. lia. Qed.

(* the line end never lies before the line beginning: end - lineBeginning cannot wrap *)
Lemma line_begin_le_end s pos nl lb e : pos <= glen s ->
  is_line_beginning s nl pos lb -> is_line_end s nl pos e -> lb <= e /\ e <= glen s.
Proof.
  intros Hpos (B1 & B2 & B3) (e0 & E1 & E2 & E3 & E4).
  destruct E4 as [[-> _] | (Hee & c & Hc & Ho)]; [lia|].
  split; [|lia].
  destruct (N.eq_dec e0 pos) as [Heq|Hne]; [|lia].
  destruct (N.eq_dec lb pos) as [Hlb|Hlb]; [|lia].
  destruct B2 as [B2|B2]; [lia|].
  replace (lb - 1) with e in B2 by lia. rewrite Hc in B2. injection B2 as ->.
  rewrite other_nl_irrefl in Ho. discriminate.
Qed.

(* no newline byte strictly inside the line *)
Lemma line_no_nl s pos nl lb e : pos <= glen s ->
  is_line_beginning s nl pos lb -> is_line_end s nl pos e ->
  forall j c, lb <= j < e -> nthN s j = Some c -> c <> nl.
Proof.
  intros Hpos (B1 & B2 & B3) (e0 & E1 & E2 & E3 & E4) j c Hj Hn.
  assert (He : e <= e0) by (destruct E4 as [[-> _] | (Hee & _)]; lia).
  destruct (N.ltb_spec j pos) as [Hlt|Hge].
  - apply (B3 j c); [lia | exact Hn].
  - apply (E3 j c); [lia | exact Hn].
Qed.

(* ------------------------------------------------------------------------------------ *)
(* quote *)

Lemma quote_spec_lemma s pos nl lb : pos <= glen s -> is_line_beginning s nl pos lb ->
  exists e, line_end s pos nl = GOk e /\ is_line_end s nl pos e /\ lb <= e <= glen s /\
            quote s pos lb nl = GOk (quote_of s lb e).
Proof.
  intros Hpos Hb. destruct (line_end_spec_lemma s pos nl Hpos) as (e & He & Hle).
  destruct (line_begin_le_end s pos nl lb e Hpos Hb Hle) as [H1 H2].
  exists e. split; [exact He|]. split; [exact Hle|]. split; [lia|].
  unfold quote, quote_of, max_length. rewrite He. cbn [gbind]. rewrite usub_le by exact H1.
  destruct (200 <? e - lb) eqn:Et.
  - rewrite usub_le by lia. replace (lb + 200 - 3) with (lb + 197) by lia.
    rewrite gslice_ok by lia. reflexivity.
  - rewrite gslice_ok by lia. reflexivity.
Qed.

(* a quote of a line of at most 200 bytes is a contiguous piece of the content, it ends where
   the line ends, only blank bytes of the line precede it, and it has no newline byte *)
Lemma quote_short_lemma s pos nl lb e : pos <= glen s ->
  is_line_beginning s nl pos lb -> is_line_end s nl pos e -> e - lb <= 200 ->
  exists blanks,
    s = (firstn (N.to_nat lb) s ++ blanks) ++ quote_of s lb e ++ skipn (N.to_nat e) s /\
    forallb is_blank blanks = true /\
    ~ In nl (quote_of s lb e).
Proof.
  intros Hpos Hb Hle Hshort.
  destruct (line_begin_le_end s pos nl lb e Hpos Hb Hle) as [H1 H2].
  unfold quote_of. destruct (200 <? e - lb) eqn:Et; [lia|].
  destruct (tsfl_spec (slice s lb e)) as (pre & Hpre & Hblank & _).
  exists pre. split; [|split; [exact Hblank|]].
  - rewrite <- app_assoc. rewrite (app_assoc pre). rewrite <- Hpre. apply slice_split; assumption.
  - intros Hin. apply tsfl_incl in Hin. apply In_slice in Hin as (j & Hj & Hn).
    exact (line_no_nl s pos nl lb e Hpos Hb Hle j nl Hj Hn eq_refl).
Qed.

(* ------------------------------------------------------------------------------------ *)
(* PositionInLine *)

Lemma position_in_line_lemma s pos nl : pos <= glen s ->
  exists lb, is_line_beginning s nl pos lb /\ lb <= pos /\ position_in_line s pos nl = GOk (pos - lb).
Proof.
  intros Hpos. destruct (line_beginning_spec_lemma s pos nl) as (lb & Hlb & Hb).
  exists lb. split; [exact Hb|]. destruct Hb as (B1 & _). split; [lia|].
  unfold position_in_line. rewrite Hlb. cbn [gbind]. rewrite usub_le by lia. reflexivity.
Qed.

(* ------------------------------------------------------------------------------------ *)
(* NewLocation *)

Lemma location_spec_lemma s i : i <= glen s ->
  exists nl lb e,
    detect_nl s = GOk nl /\ is_detected_nl s nl /\
    is_line_beginning s nl i lb /\ is_line_end s nl i e /\ lb <= e <= glen s /\
    new_location s i = GOk (i, 1 + nl_before s nl i, quote_of s lb e).
Proof.
  intros Hi. destruct (detect_nl_spec_lemma s) as (nl & Hnl & Hd).
  destruct (line_beginning_spec_lemma s i nl) as (lb & Hlb & Hb).
  destruct (quote_spec_lemma s i nl lb Hi Hb) as (e & He & Hle & Hbe & Hq).
  exists nl, lb, e. repeat (split; [assumption|]).
  unfold new_location. rewrite Hnl. cbn [gbind]. rewrite Hlb. cbn [gbind]. rewrite Hq. cbn [gbind].
  rewrite line_number_spec_lemma. reflexivity.
Qed.

Lemma location_total_lemma s i : i <= glen s -> exists r, new_location s i = GOk r.
Proof.
  intros Hi. destruct (location_spec_lemma s i Hi) as (nl & lb & e & _ & _ & _ & _ & _ & H).
  eexists. exact H.
Qed.

(* beyond the end: the Go code panics (LineEnd, content[i-1]) *)
Lemma location_panics_lemma s i : glen s < i -> new_location s i = GPanic oob.
Proof.
  intros Hi. destruct (detect_nl_spec_lemma s) as (nl & Hnl & _).
  destruct (line_beginning_spec_lemma s i nl) as (lb & Hlb & _).
  unfold new_location. rewrite Hnl. cbn [gbind]. rewrite Hlb. cbn [gbind].
  unfold quote. rewrite line_end_panics by exact Hi. reflexivity.
Qed.

Lemma location_domain_lemma s i : (exists r, new_location s i = GOk r) <-> i <= glen s.
Proof.
  split.
  - intros [r Hr]. destruct (N.leb_spec i (glen s)) as [H|H]; [exact H|].
    rewrite location_panics_lemma in Hr by exact H. discriminate.
  - apply location_total_lemma.
Qed.

Lemma location_total_unrestricted_refuted_lemma :
  exists s i, all_bytes s = true /\ new_location s i = GPanic oob.
Proof. exists [], 1. split; reflexivity. Qed.

(* ------------------------------------------------------------------------------------ *)
(* Examples (vm_compute) on "ab\r\n  cd\r\nef": 0 a, 1 b, 2 CR, 3 LF, 4 ' ', 5 ' ', 6 c, 7 d,
   8 CR, 9 LF, 10 e, 11 f *)
Definition ex_crlf : bytes := [97; 98; 13; 10; 32; 32; 99; 100; 13; 10; 101; 102].

Example ex_detect_nl : detect_nl ex_crlf = GOk 10 /\ detect_nl [97; 10; 13; 98; 13; 10] = GOk 13.
Proof. vm_compute. split; reflexivity. Qed.

(* location_total / location_spec: index 7 ('d') is on line 2 whose quote is "cd" *)
Example ex_location : new_location ex_crlf 7 = GOk (7, 2, [99; 100]).
Proof. vm_compute. reflexivity. Qed.

(* index = len is fine, index = len + 1 panics *)
Example ex_location_end :
  new_location ex_crlf 12 = GOk (12, 3, [101; 102]) /\ new_location ex_crlf 13 = GPanic oob.
Proof. vm_compute. split; reflexivity. Qed.

(* line_number_spec: the newline byte AT the index is not counted (`if i != position`) *)
Example ex_line_number :
  line_number ex_crlf 9 10 = GOk 2 /\ line_number ex_crlf 10 10 = GOk 3 /\
  1 + nl_before ex_crlf 10 9 = 2 /\ line_number ex_crlf 1000 10 = GOk 3.
Proof. vm_compute. repeat split; reflexivity. Qed.

(* line_beginning_spec *)
Example ex_line_beginning :
  line_beginning ex_crlf 7 10 = GOk 4 /\ line_beginning ex_crlf 9 10 = GOk 4 /\
  line_beginning ex_crlf 3 10 = GOk 0 /\ line_beginning (ex_crlf ++ [10]) 99 10 = GOk 13.
Proof. vm_compute. repeat split; reflexivity. Qed.

(* line_end_spec: the end steps back over the CR of CR LF, also when the index is ON the LF *)
Example ex_line_end :
  line_end ex_crlf 5 10 = GOk 8 /\ line_end ex_crlf 9 10 = GOk 8 /\ line_end ex_crlf 10 10 = GOk 12 /\
  line_end ex_crlf 13 10 = GPanic oob.
Proof. vm_compute. repeat split; reflexivity. Qed.

(* quote_spec, truncation rule: 3 blanks + 250 'x' on one line -> first 197 bytes, trimmed, + "..." *)
Example ex_quote_long :
  new_location (ex_crlf ++ [13; 10] ++ repeat 32 3 ++ repeat 120 250) 100 =
  GOk (100, 4, repeat 120 194 ++ dots).
Proof. vm_compute. reflexivity. Qed.

(* exactly 200 bytes are not truncated, 201 are *)
Example ex_quote_200 :
  new_location (repeat 120 200) 0 = GOk (0, 1, repeat 120 200) /\
  new_location (repeat 120 201) 0 = GOk (0, 1, repeat 120 197 ++ dots).
Proof. vm_compute. split; reflexivity. Qed.

(* quote_short: an all-blank line is quoted verbatim (TrimSpacesFromLeft returns its input) *)
Example ex_quote_blank : new_location [97; 10; 32; 9; 10; 98] 3 = GOk (3, 2, [32; 9]).
Proof. vm_compute. reflexivity. Qed.

Example ex_position_in_line : position_in_line ex_crlf 7 10 = GOk 3.
Proof. vm_compute. reflexivity. Qed.
