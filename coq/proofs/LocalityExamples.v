(* examples for C20 / C10 (vm_compute on the model) *)
From Coq Require Import List NArith Bool String Lia Permutation.
From JV.lib Require Import Bytes.
From JV.gen Require Import DirectiveTables TagName.
From JV.model Require Import ScannerSem Core Description PathParams TagTitle Catalog.
From JV.proofs Require Import BytesLemmas TagNameProofs CatalogProofs FaithfulProofs ContentProofs InfoProofs FaithfulExamples LocalityProofs OrderProofs FrameProofs InsertProofs TagFrameProofs TagInsertProofs.
Import ListNotations.
Open Scope N_scope.
Local Open Scope string_scope.
Local Open Scope list_scope.

Lemma declared_tags_exact_lemma ts tg : collect_tags ts [] = COk tg -> tg = map tag_entry (filter tag_node ts).
Proof. intro H. exact (collect_tags_exact ts [] tg H). Qed.

Definition ex_new_server : dtree := L KServer "SERVER" 400 [("Name", "@s2")] [] "second" None [].
Definition ex_new_type : dtree := L KType "TYPE" 400 [("Name", "@dog")] [] "" (Some (410, 420)) [].
Definition ex_new_get : dtree := L KGet "GET" 400 [("Path", "/birds/{id}")] [] "new" None [].

(* the hypotheses of the C20 theorems are satisfiable, and their conclusions are what the model computes *)
Lemma locality_example :
  exists c c1 c2 c3,
    ex_build ex_full_forest = COk c /\
    ex_build (ex_full_forest ++ [ex_new_server]) = COk c1 /\
    c1 = upd_servers c (c_servers c ++ [(bs "@s2", {| s_annot := bs "second"; s_base := [] |})]) /\
    ex_build (ex_full_forest ++ [ex_new_type]) = COk c2 /\
    map fst (c_types c2) = map fst (c_types c) ++ [bs "@dog"] /\
    ex_build (ex_full_forest ++ [ex_new_get]) = COk c3 /\
    map fst (c_inters c3) = map fst (c_inters c) ++ [{| i_proto := PHttp; i_method := bs "GET"; i_path := bs "/birds/{id}" |}] /\
    map fst (c_tags c3) = map fst (c_tags c) ++ [bs "@birds"] /\
    (* the same SERVER once more: rejected *)
    (exists e, ex_build ((ex_full_forest ++ [ex_new_server]) ++ [ex_new_server]) = CErr e /\ ce_kind e = CEMsg "duplicate names").
Proof.
  do 4 eexists. split; [vm_compute; reflexivity|]. split; [vm_compute; reflexivity|]. split; [vm_compute; reflexivity|].
  split; [vm_compute; reflexivity|]. split; [vm_compute; reflexivity|]. split; [vm_compute; reflexivity|].
  split; [vm_compute; reflexivity|]. split; [vm_compute; reflexivity|].
  eexists. split; vm_compute; reflexivity.
Qed.

Definition ex_decls : list dtree :=
  [ L KServer "SERVER" 11 [("Name", "@a")] [] "" None []; L KType "TYPE" 22 [("Name", "@t")] [] "" (Some (30, 31)) [];
    L KTAG "TAG" 33 [("TagName", "@g")] [] "" None []; L KEnum "ENUM" 40 [("Name", "@e")] [] "" (Some (48, 50)) [];
    L KServer "SERVER" 52 [("Name", "@b")] [] "" None [] ].
Definition ex_decls_rev : list dtree := rev ex_decls.
Definition ex_jsight : dtree := L KJsight "JSIGHT" 0 [("Version", "0.3")] [] "" None [].

Lemma order_example :
  Forall decl_leaf ex_decls /\ Permutation ex_decls ex_decls_rev /\
  exists c c', ex_build (ex_jsight :: ex_decls) = COk c /\ ex_build (ex_jsight :: ex_decls_rev) = COk c' /\
    map fst (c_servers c) = [bs "@a"; bs "@b"] /\ map fst (c_servers c') = [bs "@b"; bs "@a"] /\
    c_types c = c_types c' /\ c_enums c = c_enums c' /\ c_tags c = c_tags c'.
Proof.
  split; [|split].
  - unfold ex_decls. repeat (constructor; [split; [reflexivity | vm_compute; auto 6]|]). constructor.
  - apply Permutation_rev.
  - do 2 eexists. split; [vm_compute; reflexivity|]. split; [vm_compute; reflexivity|].
    repeat split; vm_compute; reflexivity.
Qed.

(* C20 (b): the new SERVER in front of the old one; the new TYPE / ENUM in the middle *)
Definition ex_new_enum : dtree := L KEnum "ENUM" 400 [("Name", "@e2")] [] "two" (Some (410, 415)) [].
Definition ex_mid (k : nat) (t : dtree) : list dtree := firstn k ex_full_forest ++ t :: skipn k ex_full_forest.

Lemma insertion_example :
  exists c c1 c2 c3,
    ex_build ex_full_forest = COk c /\
    ex_build (ex_mid 2 ex_new_server) = COk c1 /\ map fst (c_servers c1) = [bs "@s2"; bs "@s"] /\
    c1 = upd_servers c (c_servers c1) /\
    ex_build (ex_mid 4 ex_new_type) = COk c2 /\ map fst (c_types c2) = [bs "@dog"; bs "@cat"] /\
    ex_build (ex_mid 7 ex_new_enum) = COk c3 /\ c_enums c3 = [(bs "@e", []); (bs "@e2", bs "two")] /\
    c3 = upd_enums c (c_enums c3).
Proof.
  do 4 eexists.
  split; [vm_compute; reflexivity|]. split; [vm_compute; reflexivity|]. split; [vm_compute; reflexivity|].
  split; [vm_compute; reflexivity|]. split; [vm_compute; reflexivity|]. split; [vm_compute; reflexivity|].
  split; [vm_compute; reflexivity|]. split; vm_compute; reflexivity.
Qed.

Definition ex_new_tag : dtree := L KTAG "TAG" 400 [("TagName", "@zz")] [] "Unused" None [].
Lemma tag_insertion_example :
  exists c c1, ex_build ex_full_forest = COk c /\ ex_build (ex_mid 2 ex_new_tag) = COk c1 /\
    map fst (c_tags c) = [bs "@pets"; bs "@dogs"; bs "@rpc"] /\
    map fst (c_tags c1) = [bs "@zz"; bs "@pets"; bs "@dogs"; bs "@rpc"] /\ c1 = upd_tags c (c_tags c1).
Proof.
  do 2 eexists. split; [vm_compute; reflexivity|]. split; [vm_compute; reflexivity|].
  split; [vm_compute; reflexivity|]. split; vm_compute; reflexivity.
Qed.
