(* C07 — the textual reading of macros, on directive forests.  Definitions only.

   A forest is what the project scan leaves (model/Core.v, dtree).  The property speaks of
   "the document obtained by replacing every PASTE with the body of the macro it names and
   deleting the MACRO definitions": on forests that is [inline m (strip_macros ts)], where the
   body of a macro is the list of children of its MACRO node, and a PASTE node is replaced by
   the (recursively inlined) body, spliced among the PASTE's siblings.

   The paste graph has an edge a -> b when a PASTE naming b stands anywhere inside the body
   of macro a (the children of a PASTE node itself are never looked at: neither the
   recursion check nor the expansion descends into them). *)
From Coq Require Import List NArith Bool String.
From JV.lib Require Import Bytes.
From JV.gen Require Import DirectiveTables.
From JV.model Require Import Core.
Import ListNotations.

Definition is_paste (t : dtree) : bool := kind_eqb (d_kind (tree_dir t)) KPaste.
Definition is_macro (t : dtree) : bool := kind_eqb (d_kind (tree_dir t)) KMacro.
Definition dname (t : dtree) : bytes := named (tree_dir t) (bs "Name").

(* ---- MACRO definitions: the table and what is left of the document ---- *)
Definition strip_macros (ts : list dtree) : list dtree := filter (fun t => negb (is_macro t)) ts.
Definition macros_of (ts : list dtree) : macro_table :=
  map (fun t => (dname t, t)) (filter is_macro ts).

(* a MACRO that collectMacro takes: no annotation, a name, at least one child *)
Definition macro_wf (t : dtree) : bool :=
  beq (d_annot (tree_dir t)) [] && negb (beq (dname t) []) &&
  match tree_kids t with [] => false | _ => true end.

Definition defined (m : macro_table) (n : bytes) : bool :=
  match macro_lookup m n with Some _ => true | None => false end.

(* the body of the macro called n (empty when there is none) *)
Definition body (m : macro_table) (n : bytes) : list dtree :=
  match macro_lookup m n with Some t => tree_kids t | None => [] end.

(* ---- PASTE occurrences ---- *)
(* names of the PASTE directives of a forest, in document order *)
Fixpoint pastes_tree (t : dtree) : list bytes :=
  match t with
  | DNode d kids =>
    if kind_eqb (d_kind d) KPaste then [named d (bs "Name")]
    else flat_map pastes_tree kids
  end.
Definition pastes_in (ts : list dtree) : list bytes := flat_map pastes_tree ts.

Definition succs (m : macro_table) (n : bytes) : list bytes := pastes_in (body m n).

(* ---- the paste graph, restricted to the collected macros ---- *)
Definition paste_graph (m : macro_table) : list (bytes * bytes) :=
  flat_map (fun e => map (fun b => (fst e, b)) (filter (defined m) (succs m (fst e)))) m.

Definition gsuccs (g : list (bytes * bytes)) (a : bytes) : list bytes :=
  map snd (filter (fun e => beq (fst e) a) g).

(* b is reached from a by a path of 1..k edges *)
Fixpoint reaches (k : nat) (g : list (bytes * bytes)) (a b : bytes) : bool :=
  match k with
  | O => false
  | S k' => existsb (fun c => beq c b || reaches k' g c b) (gsuccs g a)
  end.

(* a cycle of any length: a simple cycle visits at most (length m) macros *)
Definition has_cycle (m : macro_table) : bool :=
  existsb (fun n => reaches (List.length m) (paste_graph m) n n) (map fst m).

(* a PASTE without a name somewhere inside a macro body *)
Definition nameless_paste (m : macro_table) : bool :=
  existsb (fun e => name_in [] (succs m (fst e))) m.

(* every entry of the table is a MACRO node (what collect_macro builds) *)
Definition table_ok (m : macro_table) : bool :=
  forallb (fun e => is_macro (snd e)) m.

(* macros reachable from the non-macro part of the document *)
Definition used (m : macro_table) (rest : list dtree) (n : bytes) : bool :=
  existsb (fun a => beq a n || reaches (List.length m) (paste_graph m) a n) (pastes_in rest).
Definition uses (m : macro_table) (rest : list dtree) : list bytes :=
  filter (used m rest) (map fst m).

(* ---- inlining ---- *)
Definition macro_total (m : macro_table) : nat :=
  fold_right (fun e acc => tree_size (snd e) + acc)%nat O m.

(* the depth of the expansion: the fuel of paste_list/inline_fuel is spent along ONE branch
   (a list is walked with the same fuel for the head and for the tail), so what has to be
   bounded is the longest chain: siblings + nesting + one macro body per macro on an acyclic
   paste chain.  (The WORK of an expansion is exponential on doubling chains; its depth is not.) *)
Definition fuel_needed (m : macro_table) (ts : list dtree) : nat :=
  (forest_size ts + 1 + List.length m * (macro_total m + 2))%nat.

Fixpoint inline_fuel (fuel : nat) (m : macro_table) (ts : list dtree) : option (list dtree) :=
  match fuel with
  | O => None
  | S f =>
    match ts with
    | [] => Some []
    | t :: r =>
      let d := tree_dir t in
      let head :=
        if kind_eqb (d_kind d) KPaste then
          (* a PASTE of nothing, and a PASTE that carries an annotation (refused as it stands), stay where they are *)
          if negb (beq (d_annot d) []) then Some [t]
          else match macro_lookup m (named d (bs "Name")) with
               | Some mt => inline_fuel f m (tree_kids mt)
               | None => Some [t]
               end
        else
          match inline_fuel f m (tree_kids t) with
          | Some k => Some [DNode d k]
          | None => None
          end in
      match head with
      | Some a => match inline_fuel f m r with Some b => Some (a ++ b) | None => None end
      | None => None
      end
    end
  end.

(* the fuel is enough whenever the recursion check has passed (MacroProofs.inline_total) *)
Definition inline (m : macro_table) (ts : list dtree) : list dtree :=
  match inline_fuel (fuel_needed m ts) m ts with Some x => x | None => [] end.

(* the document of the property: PASTEs replaced, MACRO definitions deleted *)
Definition inlined_document (ts : list dtree) : list dtree :=
  inline (macros_of ts) (strip_macros ts).

(* the start of the expansion and what `expand` returns from its final state *)
Definition pstate0 : pstate := {| ps_frames := []; ps_roots := [] |}.
Definition forest_of_pstate (p : pstate) : list dtree :=
  rev (close_all (List.length (ps_frames p)) (ps_frames p) (ps_roots p)).

(* the fuel `expand` gives to the recursion check *)
Definition check_fuel (m : macro_table) : nat :=
  (16 + 4 * macro_total m * S (List.length m))%nat.
(* what the check needs: one macro body per macro on the current path *)
Definition check_fuel_needed (m : macro_table) : nat :=
  (4 + macro_total m + 3 * List.length m)%nat.

(* what the expansion reaches: the PASTEs of the document and, from a macro that is reached,
   the PASTEs of its body (defined or not) *)
Inductive Reached (m : macro_table) (ts : list dtree) : bytes -> Prop :=
| R_here b : In b (pastes_in ts) -> Reached m ts b
| R_step a b : Reached m ts a -> In b (succs m a) -> Reached m ts b.

(* forests that the scan cannot produce: a MACRO node that is not at top level.  A macro body
   with a MACRO child would, pasted at top level, leave a MACRO directive in the expansion. *)
Definition no_macro_nodes (ts : list dtree) : bool := forallb (fun t => negb (is_macro t)) ts.
Definition bodies_macro_free (m : macro_table) : bool :=
  forallb (fun e => no_macro_nodes (tree_kids (snd e))) m.
