(* C12 — allOf inheritance: the property as a pure function on schema ASTs (no heap, no memo, no
   processing order), and the acceptance conditions of the schema library that runs before the
   stage modelled in model/AllOf.v.  DEFINITIONS ONLY.

   spec_tree: an object with allOf [b1..bn] lists
        spec_children(b1) ++ ... ++ spec_children(bn) ++ own properties,
   where spec_children(b) = the (transitively expanded) children of the user type b, each
   re-marked with b.  "The base it was taken from" is therefore the base NAMED IN THE allOf
   RULE OF THE INHERITING OBJECT (the direct base), also for a property the base itself
   inherited: this is what inheritPropertiesFromUserType does (vv.InheritedFrom = userTypeName
   overwrites the mark the property carried in the base).  The other reading of the property
   text — the type that originally declared the property — is NOT what the code implements; the
   unit tests in core/compile_catalog_test.go pin one level of inheritance only, where the two
   readings coincide.  spec_tree_owner below is that other reading, for the record.

   Nested objects are expanded wherever they are (object properties AND array items): the
   property text says "an object schema with an allOf rule", not "outside arrays".

   "Each exactly once": spec_tree does not remove anything; lib_ok demands that no key occurs
   twice, which is what the schema library enforces BEFORE this stage ("Duplicate keys (k) in the
   schema"): a diamond whose shared base has a property, two bases with a common key, and an
   own property that repeats an inherited key are all REJECTED by the library, never
   deduplicated.  (The Go stage on its own would deduplicate silently, keeping the copy of the
   LAST-named base: see AllOfProofs.diamond_dedup_unit.) *)
From Coq Require Import List NArith Bool String.
From JV.lib Require Import Bytes.
From JV.model Require Import AllOf.
Import ListNotations.
Open Scope nat_scope.

Definition mark (b : bytes) (r : rtree) : rtree :=
  match r with RNode k tk _ ks => RNode k tk b ks end.

Definition rkids (r : rtree) : list rtree := match r with RNode _ _ _ ks => ks end.
Definition rkey (r : rtree) : option bytes := match r with RNode k _ _ _ => k end.
Definition rinh (r : rtree) : bytes := match r with RNode _ _ i _ => i end.
Definition rtok (r : rtree) : tok := match r with RNode _ tk _ _ => tk end.

(* the children a base contributes; None = undefined / not jsight / not an object / out of fuel *)
Definition spec_base (rec : option bytes -> tree -> option rtree) (tys : list (bytes * option tree))
           (b : bytes) : option (list rtree) :=
  match lookup tys b with
  | Some (Some (Tree TObject ao kids)) =>
    match rec None (Tree TObject ao kids) with
    | Some r => Some (map (mark b) (rkids r))
    | None => None
    end
  | _ => None
  end.

Fixpoint spec_tree (fuel : nat) (tys : list (bytes * option tree)) (key : option bytes) (t : tree) : option rtree :=
  match fuel with
  | O => None
  | S f =>
    match t with
    | Tree tk ao kids =>
      match all_some (map (fun kc => spec_tree f tys (fst kc) (snd kc)) kids) with
      | None => None
      | Some own =>
        match tk with
        | TObject =>
          match all_some (map (spec_base (spec_tree f tys) tys) ao) with
          | Some inherited => Some (RNode key tk [] (List.concat inherited ++ own))
          | None => None
          end
        | _ => Some (RNode key tk [] own)
        end
      end
    end
  end.

(* the schema as declared: no inheritance at all *)
Fixpoint raw_tree (fuel : nat) (key : option bytes) (t : tree) : option rtree :=
  match fuel with
  | O => None
  | S f =>
    match t with
    | Tree tk _ kids =>
      match all_some (map (fun kc => raw_tree f (fst kc) (snd kc)) kids) with
      | Some own => Some (RNode key tk [] own)
      | None => None
      end
    end
  end.

(* the OTHER reading of "the base it was taken from": the original owner.  Not implemented by
   the code; kept to state the difference (AllOfProofs.marking_is_direct_base). *)
Definition mark_if_own (b : bytes) (r : rtree) : rtree :=
  match r with RNode k tk [] ks => RNode k tk b ks | _ => r end.

Definition spec_base_owner (rec : option bytes -> tree -> option rtree) (tys : list (bytes * option tree))
           (b : bytes) : option (list rtree) :=
  match lookup tys b with
  | Some (Some (Tree TObject ao kids)) =>
    match rec None (Tree TObject ao kids) with
    | Some r => Some (map (mark_if_own b) (rkids r))
    | None => None
    end
  | _ => None
  end.

Fixpoint spec_tree_owner (fuel : nat) (tys : list (bytes * option tree)) (key : option bytes) (t : tree) : option rtree :=
  match fuel with
  | O => None
  | S f =>
    match t with
    | Tree tk ao kids =>
      match all_some (map (fun kc => spec_tree_owner f tys (fst kc) (snd kc)) kids) with
      | None => None
      | Some own =>
        match tk with
        | TObject =>
          match all_some (map (spec_base_owner (spec_tree_owner f tys) tys) ao) with
          | Some inherited => Some (RNode key tk [] (List.concat inherited ++ own))
          | None => None
          end
        | _ => Some (RNode key tk [] own)
        end
      end
    end
  end.

(* A path of the recursion enters every type at most once when the allOf graph is acyclic and
   otherwise descends in a tree. *)
Definition spec_fuel (e : env) : nat := env_size e + List.length (e_types e) + 2.

Definition spec_schema (e : env) (t : tree) : option rtree := spec_tree (spec_fuel e) (e_types e) None t.

(* ------------------------------------------------------------------------------------- *)
(* what the schema library accepts (github.com/jsightapi/jsight-schema-go-library, loader/
   compiler_all_of.go and the object node's AddChild), restricted to what matters here.  This is
   an ASSUMPTION about code outside /repo; verifsys/checks/c12.py compares it with the real
   library on every generated project (a project the model calls acceptable must be accepted,
   one it calls unacceptable must be rejected). *)

Fixpoint nodupb (l : list bytes) : bool :=
  match l with [] => true | x :: r => negb (mem x r) && nodupb r end.

Fixpoint keys_of (l : list rtree) : option (list bytes) :=
  match l with
  | [] => Some []
  | r :: rest =>
    match rkey r, keys_of rest with
    | Some k, Some ks => Some (k :: ks)
    | _, _ => None
    end
  end.

(* every object in the expanded schema has keyed children with pairwise different keys; array
   items have no key; scalars have no children *)
Fixpoint rtree_ok (r : rtree) : bool :=
  match r with
  | RNode _ tk _ ks =>
    forallb rtree_ok ks &&
    match tk with
    | TObject => match keys_of ks with Some l => nodupb l | None => false end
    | TArray => forallb (fun c => match rkey c with None => true | Some _ => false end) ks
    | TOther => match ks with [] => true | _ => false end
    end
  end.

(* the allOf rule is written on objects only; object members have keys, array items have none,
   scalars have no children (what a parsed schema looks like) *)
Definition has_key (kc : option bytes * tree) : bool := match fst kc with Some _ => true | None => false end.

Fixpoint tree_wf (fuel : nat) (t : tree) : bool :=
  match fuel with
  | O => false
  | S f =>
    match t with
    | Tree tk ao kids =>
      forallb (fun kc => tree_wf f (snd kc)) kids &&
      match tk with
      | TObject => forallb has_key kids
      | TArray => forallb (fun kc => negb (has_key kc)) kids && match ao with [] => true | _ => false end
      | TOther => match kids with [] => true | _ => false end && match ao with [] => true | _ => false end
      end
    end
  end.

Definition schema_ok (e : env) (t : tree) : bool :=
  tree_wf (S (tree_size t)) t &&
  match spec_schema e t with
  | Some r => rtree_ok r
  | None => false
  end.

Definition name_ok (n : bytes) : bool := match n with [] => false | _ :: _ => true end.

(* Cheap pre-check (only there to make lib_ok fast on cyclic projects, where spec_tree would burn
   all its fuel): a type is ranked once every type named in an allOf rule anywhere inside it is
   ranked; after (number of types) rounds every type of an acyclic, closed project is ranked. *)
Definition bases_anywhere (t : tree) : list bytes := tree_allof_names (S (tree_size t)) t.

Fixpoint rank_rounds (tys : list (bytes * option tree)) (ranked : list bytes) (n : nat) : list bytes :=
  match n with
  | O => ranked
  | S m =>
    rank_rounds tys
      (ranked ++ map fst (filter (fun x : bytes * option tree =>
                                    negb (mem (fst x) ranked) &&
                                    match snd x with
                                    | Some t => forallb (fun b => mem b ranked) (bases_anywhere t)
                                    | None => true
                                    end) tys)) m
  end.

Definition acyclic (e : env) : bool :=
  let ranked := rank_rounds (e_types e) [] (List.length (e_types e)) in
  forallb (fun x : bytes * option tree => mem (fst x) ranked) (e_types e) &&
  forallb (fun x : ukind * tree => forallb (fun b => mem b ranked) (bases_anywhere (snd x))) (e_uses e).

Definition lib_ok (e : env) : bool :=
  forallb name_ok (map fst (e_types e)) &&
  nodupb (map fst (e_types e)) &&
  (if acyclic e then true else false) &&
  forallb (fun x : bytes * option tree => match snd x with Some t => schema_ok e t | None => true end) (e_types e) &&
  forallb (fun x : ukind * tree => schema_ok e (snd x)) (e_uses e).

(* ------------------------------------------------------------------------------------- *)
(* classes of schemas used by the guards of the theorems *)

(* no allOf rule strictly below the root *)
Fixpoint tree_plain (fuel : nat) (t : tree) : bool :=
  match fuel with
  | O => false
  | S f =>
    match t with
    | Tree _ ao kids => match ao with [] => forallb (fun kc => tree_plain f (snd kc)) kids | _ => false end
    end
  end.

Definition root_level (t : tree) : bool :=
  match t with Tree _ _ kids => forallb (fun kc => tree_plain (S (tree_size (snd kc))) (snd kc)) kids end.

(* every allOf rule of the project sits at the root of a user type or of a use-site schema *)
Definition env_root_level (e : env) : bool :=
  forallb (fun x : bytes * option tree => match snd x with Some t => root_level t | None => true end) (e_types e) &&
  forallb (fun x : ukind * tree => root_level (snd x)) (e_uses e).

(* The class of allof_correct_skeleton.  A schema is a SKELETON when no object with an allOf rule
   lies inside another object with an allOf rule: below an object with a rule everything is
   plain; above it only objects and arrays without rule.  A project is in the class when every
   schema is a skeleton and every user type named in some allOf rule (a base) has its own rules
   at its root only (root_level): the types that are copied from are flat, everything that is
   only visited — use-site schemas, user types nobody inherits from — may carry rules on nested
   objects and on array items. *)
Fixpoint tree_skel (fuel : nat) (t : tree) : bool :=
  match fuel with
  | O => false
  | S f =>
    match t with
    | Tree tk ao kids =>
      match ao with
      | [] => forallb (fun kc => tree_skel f (snd kc)) kids
      | _ => forallb (fun kc => tree_plain (S (tree_size (snd kc))) (snd kc)) kids
      end
    end
  end.

(* every type name written in an allOf rule anywhere in t *)
Fixpoint tree_names (t : tree) : list bytes :=
  match t with
  | Tree _ ao kids =>
    ao ++ (fix go (ks : list (option bytes * tree)) : list bytes :=
             match ks with [] => [] | (_, c) :: r => tree_names c ++ go r end) kids
  end.

Definition env_names (e : env) : list bytes :=
  flat_map (fun x : bytes * option tree => match snd x with Some t => tree_names t | None => [] end) (e_types e)
  ++ flat_map (fun x : ukind * tree => tree_names (snd x)) (e_uses e).

Definition env_skeleton (e : env) : bool :=
  forallb (fun x : bytes * option tree => match snd x with Some t => tree_skel (S (tree_size t)) t | None => true end) (e_types e) &&
  forallb (fun x : ukind * tree => tree_skel (S (tree_size (snd x))) (snd x)) (e_uses e) &&
  forallb (fun b => match lookup (e_types e) b with Some (Some t) => root_level t | _ => true end) (env_names e).

(* no object with an allOf rule at or below an array *)
Fixpoint no_allof_under_array (fuel : nat) (under : bool) (t : tree) : bool :=
  match fuel with
  | O => false
  | S f =>
    match t with
    | Tree tk ao kids =>
      (match ao with [] => true | _ => negb under end) &&
      forallb (fun kc => no_allof_under_array f (under || tok_eqb tk TArray) (snd kc)) kids
    end
  end.

Fixpoint has_allof (fuel : nat) (t : tree) : bool :=
  match fuel with
  | O => true
  | S f => match t with Tree _ ao kids => (match ao with [] => false | _ => true end) || existsb (fun kc => has_allof f (snd kc)) kids end
  end.

(* the two classes of accepted documents on which the implementation does NOT expand allOf *)
Definition env_no_array_allof (e : env) : bool :=
  forallb (fun x : bytes * option tree => match snd x with Some t => no_allof_under_array (S (tree_size t)) false t | None => true end) (e_types e) &&
  forallb (fun x : ukind * tree => no_allof_under_array (S (tree_size (snd x))) false (snd x)) (e_uses e).

Definition env_no_rpc_allof (e : env) : bool :=
  forallb (fun x : ukind * tree => negb (is_rpc (fst x) && has_allof (S (tree_size (snd x))) (snd x))) (e_uses e).

(* ------------------------------------------------------------------------------------- *)
(* model vs spec on one project: the comparison the exhaustive search evaluates *)

Inductive verdict :=
| VAgree                 (* accepted, every schema renders as spec_tree *)
| VRejectedBoth          (* lib_ok false: the library rejects; nothing to compare *)
| VModelFails            (* lib_ok true but the stage returns an error / panic / out of fuel *)
| VDiffers (where_ : nat) (* lib_ok true, accepted, schema number where_ differs from spec_tree *).

Fixpoint rtree_eqb (fuel : nat) (a b : rtree) : bool :=
  match fuel with
  | O => false
  | S f =>
    match a, b with
    | RNode k1 t1 i1 ks1, RNode k2 t2 i2 ks2 =>
      (match k1, k2 with Some x, Some y => beq x y | None, None => true | _, _ => false end) &&
      tok_eqb t1 t2 && beq i1 i2 &&
      (fix go (l1 l2 : list rtree) : bool :=
         match l1, l2 with
         | [], [] => true
         | x :: r1, y :: r2 => rtree_eqb f x y && go r1 r2
         | _, _ => false
         end) ks1 ks2
    end
  end.

Definition opt_rtree_eqb (fuel : nat) (a b : option rtree) : bool :=
  match a, b with Some x, Some y => rtree_eqb fuel x y | _, _ => false end.

Fixpoint first_diff (fuel : nat) (n : nat) (l : list (option rtree * option rtree)) : option nat :=
  match l with
  | [] => None
  | (a, b) :: r => if opt_rtree_eqb fuel a b then first_diff fuel (S n) r else Some n
  end.

Definition compare_env (e : env) : verdict :=
  if negb (lib_ok e) then VRejectedBoth else
  match run e with
  | ROk w =>
    let st := w_state w in
    let ts := flat_map (fun x : (bytes * option tree) * (bytes * option id) =>
                          match snd (fst x), snd (snd x) with
                          | Some t, Some r => [(render_st st r, spec_schema e t)]
                          | _, _ => []
                          end) (combine (e_types e) (w_types w)) in
    let us := map (fun x : (ukind * tree) * (ukind * id) => (render_st st (snd (snd x)), spec_schema e (snd (fst x))))
                  (combine (e_uses e) (w_uses w)) in
    match first_diff (S (List.length (heap st)) + spec_fuel e) 0 (ts ++ us) with
    | None => VAgree
    | Some n => VDiffers n
    end
  | _ => VModelFails
  end.

(* ------------------------------------------------------------------------------------- *)
(* The class env_skeleton without its third clause: every schema is a skeleton (no object with an
   allOf rule lies inside another object with an allOf rule), but a BASE type may carry rules
   below its root — on nested objects and on array items, at any depth.  Such a base is copied by
   value into every heir and the copies share the mutated grandchildren.  (allof_correct of
   props/C12.v needs neither this class nor env_skeleton; the predicate names the shape, for the
   example of props/C12.v and for the distribution printed by verifsys/checks/c12.py.) *)
Definition env_skeleton2 (e : env) : bool :=
  forallb (fun x : bytes * option tree => match snd x with Some t => tree_skel (S (tree_size t)) t | None => true end) (e_types e) &&
  forallb (fun x : ukind * tree => tree_skel (S (tree_size (snd x))) (snd x)) (e_uses e).
