(* Specification vocabulary for C02 (location arithmetic).  DEFINITIONS ONLY: what it means
   for a line number / line beginning / line end / quote to AGREE with a byte index. *)
From Coq Require Import List NArith Bool.
From JV.lib Require Import Bytes.
From JV.model Require Import Jerr.
Import ListNotations.
Open Scope N_scope.

(* the byte at (unsigned) position j, None beyond the end *)
Definition nthN (s : bytes) (j : N) : option N := nth_error s (N.to_nat j).

(* number of occurrences of the byte nl among the first i bytes of s (all of s when i > len) *)
Definition nl_before (s : bytes) (nl i : N) : N :=
  N.of_nat (count_occ N.eq_dec (firstn (N.to_nat i) s) nl).

(* lb is the beginning of the line that contains position pos (positions beyond the end are
   clamped to the end): lb is 0 or comes right after a newline byte, and there is no newline
   byte in [lb, min(pos, len)). *)
Definition is_line_beginning (s : bytes) (nl pos lb : N) : Prop :=
  lb <= N.min pos (glen s) /\
  (lb = 0 \/ nthN s (lb - 1) = Some nl) /\
  (forall j c, lb <= j < N.min pos (glen s) -> nthN s j = Some c -> c <> nl).

(* the byte c is the "other half" of a two-byte line break whose detected newline byte is nl *)
Definition other_nl (nl c : N) : bool := ((nl =? 10) && (c =? 13)) || ((nl =? 13) && (c =? 10)).

(* e is the end (exclusive) of the line that contains position pos <= len: e0 is the first
   newline byte at or after pos (or the end of the content), and e is e0 stepped back over
   one preceding byte when that byte is the other half of a CR/LF pair. *)
Definition is_line_end (s : bytes) (nl pos e : N) : Prop :=
  exists e0,
    pos <= e0 <= glen s /\
    (e0 = glen s \/ nthN s e0 = Some nl) /\
    (forall j c, pos <= j < e0 -> nthN s j = Some c -> c <> nl) /\
    ((e = e0 /\ (e0 = 0 \/ exists c, nthN s (e0 - 1) = Some c /\ other_nl nl c = false)) \/
     (e + 1 = e0 /\ exists c, nthN s e = Some c /\ other_nl nl c = true)).

(* the quote of the line [lb, e): the line left-trimmed (TrimSpacesFromLeft of the schema
   library: an all-blank line is kept verbatim); a line longer than 200 bytes is cut to its
   first 197 bytes, trimmed, followed by "...". *)
Definition quote_of (s : bytes) (lb e : N) : bytes :=
  if 200 <? e - lb
  then trim_spaces_from_left (slice s lb (lb + 197)) ++ dots
  else trim_spaces_from_left (slice s lb e).

(* what DetectNewLineSymbol returns: '\n' when the content has no CR/LF byte, otherwise the
   LAST byte of the FIRST maximal run of CR/LF bytes. *)
Definition no_new_line (s : bytes) : Prop := forall c, In c s -> is_new_line c = false.
Definition all_new_line (s : bytes) : Prop := forall c, In c s -> is_new_line c = true.
Definition is_detected_nl (s : bytes) (nl : N) : Prop :=
  (no_new_line s /\ nl = 10) \/
  (exists pre run post,
     s = pre ++ run ++ post /\ no_new_line pre /\ run <> [] /\ all_new_line run /\
     (post = [] \/ exists c post', post = c :: post' /\ is_new_line c = false) /\
     nl = last run 10).
