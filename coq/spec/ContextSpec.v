(* C06 — Context resolution: specification.  DEFINITIONS ONLY.

   Part A: the resolver as a fold of the MODEL's own functions (model/Core.v: process_context,
           close_explicit, has_unclosed_explicit, close_all) over an item language.
   Part B: an INDEPENDENT declarative specification that never mentions zippers, frames or
           trees: the chain of still-open enclosing items after a prefix and the parent of the
           k-th directive, written directly from the text of the property.
   Part C: observations on a resolved forest (pre-order, parent positions, admissible edges).

   Directives are numbered 0,1,2,... in reading order (')' items are not numbered): the number of
   a directive is also its position in the pre-order traversal of the resulting forest
   (theorem resolve_preorder), which is how parents are compared (theorem resolve_nearest). *)
From Coq Require Import List NArith Bool String.
From JV.lib Require Import Bytes.
From JV.gen Require Import DirectiveTables.
From JV.model Require Import Core.
Import ListNotations.

(* ------------------------------------------------------------------------------------------ *)
(* Part A.  Items and the resolver                                                             *)
(* ------------------------------------------------------------------------------------------ *)

(* a directive as it reaches processContext (its '(' is the field d_explicit: in the Go code '('
   only marks the directive being read, core.processContextBegin), or a ')' *)
Inductive item : Set := IDir (d : directive) | IClose.

Definition zipper : Set := (list (directive * list dtree) * list dtree)%type.

(* errors that the scan raises at the position of the scanner; the position is not part of the
   item language, only the kind matters here *)
Definition ctx_err (k : cerr_kind) : cerr := {| ce_file := []; ce_idx := 0%N; ce_kind := k; ce_trace := [] |}.

Definition resolve_step (st : zipper) (it : item) : cres zipper :=
  match it with
  | IDir d => process_context (ctx_fuel (fst st)) d (fst st) (snd st)                 (* flush_cur *)
  | IClose =>
    match close_explicit (S (List.length (fst st))) (fst st) (snd st) with           (* process_lexeme, ')' *)
    | Some r => COk r
    | None => CErr (ctx_err CENoExplicitToClose)
    end
  end.

Fixpoint resolve_from (st : zipper) (l : list item) : cres zipper :=
  match l with
  | [] => COk st
  | it :: r => resolve_step st it >>=c fun st' => resolve_from st' r
  end.

Definition resolve (l : list item) : cres zipper := resolve_from ([], []) l.

(* processEOF + forest_of *)
Definition resolve_all (l : list item) : cres (list dtree) :=
  resolve l >>=c fun st =>
  if has_unclosed_explicit (fst st) then CErr (ctx_err CENotAllClosed)
  else COk (rev (close_all (List.length (fst st)) (fst st) (snd st))).

Fixpoint dirs (l : list item) : list directive :=
  match l with
  | [] => []
  | IDir d :: r => d :: dirs r
  | IClose :: r => dirs r
  end.

(* ------------------------------------------------------------------------------------------ *)
(* Part B.  The declarative specification                                                      *)
(* ------------------------------------------------------------------------------------------ *)

(* the still-open enclosing directives, innermost (= most recently read) first, each with its number *)
Definition chain : Set := list (nat * directive).

Definition admits (p d : directive) : bool := ctx_allowed (d_kind p) (d_kind d).

(* an HTTP method that carries its own path *)
Definition path_method (d : directive) : bool :=
  is_http_method (d_kind d) && negb (beq (named d (bs "Path")) []).
Definition hoists (p d : directive) : bool := path_method d && kind_eqb (d_kind p) KURL.

Definition chain_has_explicit (c : chain) : bool := existsb (fun x => d_explicit (snd x)) c.

Inductive verdict : Set :=
| VUnder (c : chain)        (* child of the head of c; c is what stays open *)
| VTop                      (* top level, nothing stays open *)
| VHoist                    (* HOIST RULE: top level although an admitting URL was found *)
| VRejected (path : bool).  (* no place; path = rejected by the hoist rule under a parenthesised URL *)

(* "starting from the previous directive and walking outwards": the first open item whose kind
   admits d; "the walk never leaves an open parenthesised context"; "or a top-level directive if
   none does and its kind may stand at top level".
   HOIST RULE (NOT in the text of C06; it is the documented meaning of `URL /a` followed by
   `GET /b`): when the first admitting item is a URL and d is a method with its own path, d does not
   go under the URL: it stands at top level and nothing stays open - which is only possible when no
   still-open item is parenthesised (otherwise d is rejected: a parenthesis is never left).
   [Before commit e3fe55a of /repo only the URL itself was tested for a parenthesis, so that
    `MACRO @m ( URL /u  GET /p` left the open parenthesis of the MACRO: see
    ContextProofs.hoist_example_*.] *)
Fixpoint walk (d : directive) (c : chain) : verdict :=
  match c with
  | [] => if root_allowed (d_kind d) then VTop else VRejected false
  | (i, p) :: outer =>
    if admits p d then
      if hoists p d then (if chain_has_explicit c then VRejected true else VHoist)
      else VUnder c
    else if d_explicit p then VRejected false
    else walk d outer
  end.

(* the same walk with the text of C06 only (no hoist rule) *)
Fixpoint walk_pure (d : directive) (c : chain) : verdict :=
  match c with
  | [] => if root_allowed (d_kind d) then VTop else VRejected false
  | (i, p) :: outer =>
    if admits p d then VUnder c
    else if d_explicit p then VRejected false
    else walk_pure d outer
  end.

(* ')' : everything up to and including the innermost parenthesised item stops being open *)
Fixpoint drop_explicit (c : chain) : option chain :=
  match c with
  | [] => None
  | (i, p) :: outer => if d_explicit p then Some outer else drop_explicit outer
  end.

(* one item: (number of directives read, open chain) -> the same after the item; None = rejected *)
Definition spec_step (s : nat * chain) (it : item) : option (nat * chain) :=
  match it with
  | IDir d =>
    match walk d (snd s) with
    | VUnder c' => Some (S (fst s), (fst s, d) :: c')
    | VTop | VHoist => Some (S (fst s), [(fst s, d)])
    | VRejected _ => None
    end
  | IClose =>
    match drop_explicit (snd s) with
    | Some c' => Some (fst s, c')
    | None => None
    end
  end.

Fixpoint spec_run (s : nat * chain) (l : list item) : option (nat * chain) :=
  match l with
  | [] => Some s
  | it :: r => match spec_step s it with Some s' => spec_run s' r | None => None end
  end.

(* the open chain after reading the prefix l (None: the prefix is already rejected);
   one more item is one spec_step: ContextProofs.spec_run_snoc *)
Definition open_chain (l : list item) : option chain := option_map snd (spec_run (O, []) l).

(* the k-th directive of l and the items before it *)
Fixpoint nth_dir (l : list item) (k : nat) : option (list item * directive) :=
  match l with
  | [] => None
  | IClose :: r => option_map (fun x => (IClose :: fst x, snd x)) (nth_dir r k)
  | IDir d :: r =>
    match k with
    | O => Some ([], d)
    | S k' => option_map (fun x => (IDir d :: fst x, snd x)) (nth_dir r k')
    end
  end.

Definition verdict_parent (v : verdict) : option (option nat) :=
  match v with
  | VUnder ((i, _) :: _) => Some (Some i)
  | VUnder [] => None
  | VTop | VHoist => Some None
  | VRejected _ => None
  end.

(* parent of directive number k: Some (Some i) = child of directive number i, Some None = top level,
   None = rejected (or there is no k-th directive, or the items before it are already rejected) *)
Definition spec_parent (l : list item) (k : nat) : option (option nat) :=
  match nth_dir l k with
  | None => None
  | Some (pre, d) =>
    match open_chain pre with
    | None => None
    | Some c => verdict_parent (walk d c)
    end
  end.

(* the three ways of being rejected, as conditions on the item list alone *)
Definition no_place (l : list item) (d : directive) (path : bool) : Prop :=
  exists pre post c, l = pre ++ IDir d :: post /\ open_chain pre = Some c /\ walk d c = VRejected path.
Definition close_without_open (l : list item) : Prop :=
  exists pre post c, l = pre ++ IClose :: post /\ open_chain pre = Some c /\ drop_explicit c = None.
Definition open_at_end (l : list item) : Prop :=
  exists c, open_chain l = Some c /\ chain_has_explicit c = true.

(* ------------------------------------------------------------------------------------------ *)
(* Part C.  Observations on forests                                                            *)
(* ------------------------------------------------------------------------------------------ *)

Fixpoint flatten_tree (t : dtree) : list directive :=
  match t with DNode d kids => d :: flat_map flatten_tree kids end.
Definition flatten (ts : list dtree) : list directive := flat_map flatten_tree ts.

(* pre-order list of parent positions: the tree t starts at position pos and hangs under par *)
Fixpoint tparents (t : dtree) (pos : nat) (par : option nat) {struct t} : list (option nat) :=
  match t with
  | DNode _ kids =>
    par :: (fix go (ks : list dtree) (p : nat) {struct ks} : list (option nat) :=
              match ks with
              | [] => []
              | k :: r => tparents k p (Some pos) ++ go r (p + tree_size k)%nat
              end) kids (S pos)
  end.
Fixpoint fparents (ts : list dtree) (pos : nat) (par : option nat) : list (option nat) :=
  match ts with
  | [] => []
  | t :: r => tparents t pos par ++ fparents r (pos + tree_size t)%nat par
  end.

(* parent of the node at pre-order position k of the forest f: None = no such node,
   Some None = a top-level tree, Some (Some i) = child of the node at pre-order position i *)
Definition parent_index (f : list dtree) (k : nat) : option (option nat) := nth_error (fparents f O None) k.

(* every parent -> child edge is admitted by the table *)
Fixpoint edges_ok (t : dtree) : bool :=
  match t with
  | DNode d kids => forallb (fun c => ctx_allowed (d_kind d) (d_kind (tree_dir c)) && edges_ok c) kids
  end.

Inductive tree_edge : dtree -> directive -> directive -> Prop :=
| edge_here : forall d kids c, In c kids -> tree_edge (DNode d kids) d (tree_dir c)
| edge_below : forall d kids c p q, In c kids -> tree_edge c p q -> tree_edge (DNode d kids) p q.

(* positions in the zipper: the number of nodes held by frames and finished trees *)
Fixpoint zsize (fr : list (directive * list dtree)) (rt : list dtree) : nat :=
  match fr with
  | [] => forest_size rt
  | (_, kids) :: rest => (zsize rest rt + 1 + forest_size kids)%nat
  end.

(* "frames = the spec's open chain": same directives in the same order, and the number the spec
   gives to a frame's directive is its pre-order position (= the number of nodes before it) *)
Fixpoint chain_matches (c : chain) (fr : list (directive * list dtree)) (rt : list dtree) : Prop :=
  match c, fr with
  | [], [] => True
  | (i, p) :: c', (d, _) :: fr' => p = d /\ i = zsize fr' rt /\ chain_matches c' fr' rt
  | _, _ => False
  end.
