#!/usr/bin/env python3
"""prints the as-built tables used in DESIGN.md (theorems per property, seeded changes, findings, fixes)"""
import glob, json, os, re
H = os.path.dirname(os.path.abspath(__file__))
out = []
out.append("### Theorems per property (names as in coq/props/<ID>.v; every one ends `Proof. exact <lemma>. Qed.` + `Print Assumptions`)\n")
for f in sorted(glob.glob(os.path.join(H, "coq/props/C*.v"))):
    pid = os.path.basename(f)[:-2]
    names = re.findall(r"^(?:Theorem|Lemma)\s+(\w+)", open(f).read(), re.M)
    out.append("* **%s** (%d): %s" % (pid, len(names), ", ".join("`%s`" % n for n in names)))
out.append("\n### Seeded changes and the checks that report them\n")
out.append("| change | what it breaks (summary) | needs | reported by |")
out.append("|---|---|---|---|")
for d in sorted(glob.glob(os.path.join(H, "seeded/C*_*"))):
    m = json.load(open(os.path.join(d, "meta.json")))
    sid = os.path.basename(d)
    det = ", ".join(m.get("detected_by", [])) or "-"
    extra = " (%s)" % m["applies_to"][:40] if m.get("applies_to") else ""
    out.append("| %s%s | %s | %s | %s |" % (sid, extra, m.get("summary", "").replace("|", "/").replace("\n", " ")[:230], m.get("needs", "").replace("|", "/").replace("\n", " ")[:160], det))
k = json.load(open(os.path.join(H, "known_findings.json")))
out.append("\n### Known findings (known_findings.json)\n")
for f in k["findings"]:
    out.append("* `%s` - %s" % (f["id"], f.get("description", "")[:420].replace("\n", " ")))
out.append("\n### Repaired defects (`fix:` commits in /repo)\n")
for f in k["fixed"]:
    out.append("* %s" % f["line"][:400])
import sys
text = "\n".join(out)
if "--into" in sys.argv:
    dst = sys.argv[sys.argv.index("--into") + 1]
    d = open(dst).read()
    marker = "<!-- TABLES -->"
    d = d[: d.index(marker) + len(marker)] + "\n\n## Appendix - tables generated from the repository\n\n" + text + "\n"
    open(dst, "w").write(d)
else:
    print(text)
