#!/bin/sh
# Build the whole framework from files on disk (offline): translator, regenerated
# models, the Coq development (full .vo build), the extracted model runner, the harness.
set -e
cd "$(dirname "$0")"
export GOFLAGS=-mod=mod GOPROXY=off GOSUMDB=off GOTOOLCHAIN=local
python3 - <<'PY'
import sys
sys.path.insert(0, ".")
from verifsys import common as C
print(C.run_go2coq())
C.coq_makefile()
ok, out = C.coq_make([])
print(out[-3000:])
if not ok:
    print("setup: Coq development did not build completely (checks will report the broken obligations)")
ok, err = C.build_model_runner()
print("model runner:", ok, err[-2000:])
ok2, err = C.build_harness()
print("harness:", ok2, err[-2000:])
sys.exit(0 if (ok and ok2) else 1)
PY
